#!/usr/bin/env python3
"""Regenerates /verif/MANIFEST.json from the table below (kept next to the code it describes)."""
import json, os, subprocess, sys

ROOT = os.path.dirname(os.path.dirname(os.path.abspath(__file__)))

TECH = "deterministic simulation with fault injection (seeded search over schedules and fault sequences; replayable scenarios)"

# id -> (engine, level category, level text, level note, design ref)
CHECKS = {
    "C03": ("E0", "exploration",
            "Seeded simulation of 2-4 real OrSWotSet replicas gossiping full states over a bag network (delay, duplication, reordering, loss); commutativity/associativity/idempotence checked on all pairs/triples of original and reached states, and 'same merged inputs => same lookups' after every delivery. Sampling of the two admissible regimes, not enumeration.",
            "Trusted: the harness's regime validators, listing via diff-against-empty. Real: datacake-crdt. No purge (C08).",
            "DESIGN.md section 10 C03"),
    "C04": ("E0", "exploration",
            "One real replica fed by a reordering/duplicating two-source network; per delivery will_apply == returned == (key view changed); final state == last-writer-wins over delivered ops; HLCTimestamp order == (time/4ms, counter, node). Millions of seeded schedules per run.",
            "Trusted: the LWW reference model (max by (time/4ms,counter,node)). Distinct timestamps only; timestamps >= 2 h after the datacake epoch.",
            "DESIGN.md section 10 C04"),
    "C05": ("E0", "exploration",
            "Two real replicas; the diff is compared with an executable model (strictly newer, or nothing held and will_apply accepts), then applied in seeded splits/orders; re-diff must be empty and a mutual exchange must equalise live views. Known finding recorded for exchanges spanning more than one forgiveness period.",
            "Trusted: model_diff; purge cut-off observed through will_apply. The actor/RPC repair path is exercised by C01, not here.",
            "DESIGN.md section 10 C05"),
    "C08": ("E0", "exploration",
            "Hour-scale discrete-event simulation of 2-4 real OrSWotSet<2>+HLC replicas (direct source + pull-repair source, clock skew, duplicate/lost direct messages) executed twice per scenario - with and without its purge events - and compared (differential), plus local purge facts at every purge (re-probed after every later event on the replica) and absolute last-writer-wins; one case in six is a 'straggler' history (one origin's stamps out of order around the purge of its early delete). One case in 9 973 is a cluster case on the E2 engine: 2-4 complete nodes (real store, keyspace actors with their own hourly purge pass, poller, distributor, RPC stack over simulated TCP) run for 2.5-4.5 simulated hours in bursts of writes and deletes an hour apart (each burst with a half in which nodes believe they have no peers, so both sources of the sets see every origin), short link holds, outages with restarts, clock skew and jumps, writes landing right on the hour, a store whose remove_tombstones removes whatever row a key names (as the bundled SQLite backend does); at every quiet point and at the end every node must hold exactly the last-writer-wins documents.",
            "Trusted: the set-level restatement of the actor's gating (will_apply filter, timestamp-sorted batches, docs fetched at apply time). Timely histories only, enforced and re-validated (cluster arm: skew within +-5 min, holds and outages at most 6 min, a poller every 5-10 s, quiet points at least 8 min after the last fault or operation).",
            "DESIGN.md section 10 C08"),
    "C09": ("E0", "exploration",
            "One real HLCTimestamp under an injected wall clock (stall, backwards/forwards jumps) interleaved with send/recv of adversarially placed remote stamps; every clause of the statement is an invariant checked per step, and every refusal must have its cause (a remote stamp within the permitted drift has to be accepted).",
            "Trusted: hook H1 converts the injected clock exactly like the real one. Pre-epoch wall clocks not generated.",
            "DESIGN.md section 10 C09"),
    "C02": ("E1", "exploration",
            "Real KeyspaceGroup + keyspace actors + ConsistencyService handlers on a paused tokio runtime over SimStorage; seeded request histories (all message kinds, both sources, arbitrary timestamps, concurrent groups, storage latency) plus a sweep of every storage-failure position x partial-success count; after every request group the actor's serialised set must equal the store rows. One case in 47 is a full cluster scenario (stub or real membership) judged by the same comparison on every node at the final quiescent point; one in 97 is a mass purge (more than a thousand tombstones purgeable in one pass); idle hours run the keyspace group's own hourly purge pass with failing remove_tombstones.",
            "Trusted: SimStorage (contract-conforming faults only), rkyv-validated decoding of the Serialize reply. Keyspaces created sequentially (C18 owns concurrent creation).",
            "DESIGN.md section 10 C02"),
    "C07": ("E1", "fault_enumeration",
            "Every crash point of a 72-point grid (after each of 24 request groups; inside each of 16 mutating storage calls with 0 / 1 / all writes durable) for each seeded history, plus seeded double crashes; crash = runtime dropped, restart = load_states_from_storage on the surviving storage; rebuilt set == store, acknowledged mutations visible, C02 oracle for the rest of the history. One case in 23 runs the real keyspace actors over real SQLite/LMDB files with the node stopped between requests and restarted on the same files (node ids up to 255 in persisted timestamps).",
            "Trusted: SimStorage durability model (applied write = durable). Crash points inside a storage call are on the simulated store only; real-backend torn writes below SQLite/LMDB are out of scope; peer convergence after restart is C01.",
            "DESIGN.md section 10 C07"),
    "C11": ("E1", "exploration",
            "The real Clock actor with 2-8 concurrent callers under seeded virtual delays and wall-clock jumps (one get_time in eight abandoned by its caller once it is queued); history (invoke/return sequence numbers) checked for distinctness, per-task monotonicity, real-time order and causality with registered remote stamps; registration floods (up to 3 000 queued registrations before a get_time). One case in ten drives the counter across the actor's back-pressure limit (65 525) without exhausting it. One case in 1 999 starts a real node and checks that the clock it hands out is the one its store stamps writes with.",
            "One OS thread: channel orders are sampled, real parallel schedules are not. Counter exhaustion and drift refusals are excluded by the generator (C09 covers them at the HLC level).",
            "DESIGN.md section 10 C11"),
    "C15": ("E1", "exploration",
            "Watcher arm (one seeded case in five): membership snapshots through the real watch_membership_changes, nodes that keep id and address while they move between data centres. The real selector actor driven through its handle: all 13 056 two-step histories over layouts <= 3x3 enumerated, plus seeded longer histories with membership updates and cache expiry in virtual time; every selection judged against the installed layout, including floods of 90-260 selections in flight while the membership changes. One case in 1 999 runs the selector inside a real single node.",
            "Trusted: the required-count table in DESIGN.md. thread_rng replaced by the seeded hook PRNG; Instant by tokio virtual time.",
            "DESIGN.md section 10 C15"),
    "C16": ("E1", "exploration",
            "The real datacake-node watch_membership_changes fed seeded snapshot sequences (a third of them over host slots that are not tied to a node id: a departing node is often replaced, within one snapshot, by another id on the very same address); subscribers from the real DatacakeHandle attach at seeded moments and read with seeded delays, folding joined/left; at quiescence each must hold exactly the live membership, and every departure must have been reported in `left` with the old address. Late/slow-subscriber losses are recorded known findings. One case in 127 is a real cluster (public API only, real gossip layer over the simulated network, long link holds, crashes, restarts, address moves) whose per-node subscriber must add up to the membership layer's own view at quiescence, and whose layers must describe exactly the running nodes - also while some nodes (up to all but one) are gone until the faults stop.",
            "chitchat is a stub in the single-node cases (harness-supplied snapshots through the same watch-channel type); in the real-cluster arm it is the vendored fork with replay patches only.",
            "DESIGN.md section 10 C16"),
    "C17": ("E1", "exploration",
            "Real SqliteStorage (file), LmdbStorage (directory) and MemStore driven call by call next to a map reference model, with clean close+reopen, kill -9 file images between calls, LMDB map-full, confusable keyspace names, duplicate ids in one bulk call, oversized batches, keyspace names around LMDB's 511-byte database-name limit (a refused keyspace must not be listed unless it can be read) and a poisoned SQLite row that fails one statement of a batch; full audit (iter_metadata, get, multi_get, keyspace-list envelope) after every mutating call.",
            "Contract-conforming call sequences only. SQLite/LMDB internals trusted (no seam below the C libraries); real worker threads, calls awaited one at a time.",
            "DESIGN.md section 10 C17"),
    "C18": ("E1", "exploration",
            "1-6 tasks first-use one keyspace name concurrently through the write path, the ConsistencyService/ReplicationService handlers and the repair path, with seeded offsets, storage latency and a cooperative delay between lookup and insert; every acknowledged mutation must be in the set a later lookup serialises, set == store, and all handed-out mailboxes must reach the same set. One case in 127 is a real cluster (public API only: the unmodified store start-up) with a node stopped and restarted on slow storage while peers keep writing and re-dialling; no accepted operation may be missing from the state a node serves.",
            "One OS thread (await-point interleavings). The handle/poller call sites are re-issued by the harness with the same statements.",
            "DESIGN.md section 10 C18"),
    "C01": ("E2", "exploration",
            "2-5 complete nodes (real store, RPC stack over simulated TCP/HTTP2, clock, selector, membership watcher) under seeded operations and faults (holds, crash/restart, lagging/partial membership views, replayed replication messages, clock skew/jumps, storage failures/latency, cooperative delays inside repair); then constructed quiescence and the real repair path for every ordered pair in seeded order; every node's store must equal the last-writer-wins documents. One case in 8 builds every node with the public API alone (DatacakeNodeBuilder::connect + store extension) and lets the real gossip layer (vendored, virtual time, seeded) decide membership under long link holds, crashes, restarts and address moves. Further families: late arrival (a node outside direct replication learns put+delete by its own cycles, later only the older operation is re-sent, closing by the nodes' own pollers), bursts of bulk calls with a partially failing bulk write or a never-held delete at the tail, a node joining a cluster whose stores hold more documents than one poll fetches, and a single-node arm that requires a new change timestamp whenever the advertised keyspace state changed and fetches the state (GetState) at every scheduling hop around a write: a reply carrying the finally advertised timestamp must hold the final state. Real-membership crashes may last until the faults stop (also of every node but one); such departures are judged before the nodes come back.",
            "chitchat is a stub (harness membership views) except in the real-membership family; recoverable network faults only; SimStorage; all operations within one forgiveness period (validated).",
            "DESIGN.md section 10 C01"),
    "C06": ("E2", "exploration",
            "Same cluster engine; the oracle runs inside the issuing host at the instant put/put_many/del/del_many returns and reads every node's store: Ok => the level's required number of distinct other holders (computed over the issuer's view, weakest view during the call); ConsistencyFailure => responses < required, responses <= holders, local write in place; an acknowledged call that left no write of its own on the issuer counts as superseded only if the issuer's row is not older than the lowest reading of its wall clock during the call; closing exchanges replicate it everywhere. Part of the cases run on the real-membership family (public API only, real gossip layer).",
            "Holder = store holds the mutation or a newer one for every id. Overlapping identical deletes by one node are skipped (indistinguishable in the store log).",
            "DESIGN.md section 10 C06"),
    "C12": ("E2", "fault_enumeration",
            "Per message value: fidelity through the real client/server; EVERY single-bit flip, EVERY truncation, extensions 1..16 and EVERY length below the fixed-size root with a correct checksum at DataView::using (the decision point of both directions); a seeded sample of the same damaged frames through the network as raw HTTP/2 requests and impostor-service replies; valid requests and replies streamed in seeded chunks; 2/3/5-byte messages, a zero-size reply and a raw-body handler.",
            "Frames > 1 KiB: 4096 seeded flips / 1024 truncations instead of all. Corruption at the frame layer, not TCP.",
            "DESIGN.md section 10 C12"),
    "C13": ("E2", "fault_enumeration",
            "Service names related by prefix and suffix (\"store\", \"store-admin\", \"re-store\"). Every add/remove history over {A,B,C} up to length 4 (quick) / 5 (thorough) enumerated completely on a running server, all four (service,message) pairs probed after every step through the real client over simulated TCP; plus seeded longer histories with concurrent probes; one service uses a custom path() and send_owned; one seeded history in four removes a service instance whose drop has a second OS thread re-register the service while the removal is still running.",
            "Probes are sequenced after each registry change. The re-registration arm uses one real second thread whose start is forced by a handshake plus 25 ms of real time; the unchanged registry ends in the same state whichever call finishes last.",
            "DESIGN.md section 10 C13"),
    "C14": ("E2", "exploration",
            "One or two server hosts and one or two client hosts (one Channel per server); every server offers two services that share one message type and answer differently, and in half the cases 15 % of the requests are refused by their handler with one of the five error codes and a message naming the request (a refusal must arrive verbatim and the request must have run exactly once). Waves of concurrent requests with unique ids, payload sizes (0-20 KiB; one case in seven also 64-900 KiB, several HTTP/2 flow-control windows), handler delays and client timeouts over simulated TCP with timed hold/release, partition/repair (mid-stream) and server kill+restart; results checked against the handler's execution log: right reply or Connection/Timeout error, at most one execution, no swapped replies, timeouts honoured.",
            "Black-holed requests without a timeout are abandoned by the harness after 30 simulated s (the statement promises no bound for them).",
            "DESIGN.md section 10 C14"),
    "C19": ("E2", "exploration",
            "Sender state built through the real actor (0..5000 entries, 1-254 origins, both sources, hour-scale spreads, optional purge) and fetched by the real ReplicationClient::get_state over simulated TCP/HTTP2; received set compared by listing, a will_apply probe grid and third-party diffs against the sender's own serialisation AND against a harness-side set to which the same history and purges were applied; garbage arm (own process each): impostor peer answers with an undecodable nested state, get_state must return Err.",
            "Mutated nested states that happen to stay well-formed are not judged.",
            "DESIGN.md section 10 C19"),
}

NOT_APPLICABLE = {
    "C10": "Pure functions of their arguments (pack/accessors/Display/FromStr/archived cast/Ord): no schedule, clock, peer, I/O or fault for a simulator to own; input generation dressed as simulation would be the wrong technique (DESIGN.md section 11).",
}

# properties whose checks are not built yet in this revision (kept honest: not claimed)
PENDING = {
}

HOOK_COMMITS_CMD = ["git", "-C", "/repo", "log", "--format=%H %s", "--grep=^verif hook"]


def main():
    try:
        out = subprocess.check_output(HOOK_COMMITS_CMD, text=True)
        commits = [l.split()[0] for l in out.strip().splitlines() if l.strip()]
    except Exception:
        commits = []
    checks = []
    for pid in sorted(CHECKS):
        eng, cat, text, note, ref = CHECKS[pid]
        checks.append({
            "property_id": pid,
            "quick_cmd": f"./bin/check {pid} quick",
            "thorough_cmd": f"./bin/check {pid} thorough",
            "evidence_file": f"/verif/evidence/{pid}.json",
            "replay_cmd_template": "./bin/replay {path}",
            "engine": eng,
            "level_claimed": {"category": cat, "text": text, "design_ref": ref},
            "level_note": note,
            "technique": TECH,
        })
    props = [json.loads(l)["id"] for l in open(os.path.join(ROOT, "properties.jsonl")) if l.strip()]
    na = []
    for pid in props:
        if pid in CHECKS:
            continue
        if pid in NOT_APPLICABLE:
            na.append({"property_id": pid, "reason": NOT_APPLICABLE[pid]})
        else:
            na.append({"property_id": pid, "reason": PENDING.get(pid, "check not built yet in this revision of /verif; not claimed")})
    manifest = {
        "version": 1,
        "setup_cmd": "cd /verif/sim && CARGO_NET_OFFLINE=true cargo build --release --offline",
        "hooks": {
            "guard": "--cfg datacake_verif",
            "enable": "rustflags = [\"--cfg\", \"tokio_unstable\", \"--cfg\", \"datacake_verif\"] in /verif/sim/.cargo/config.toml; the harness crate depends on /repo/datacake-* by path, so every check rebuilds from /repo's working tree",
            "baseline_off_cmd": "/verif/bin/baseline-off",
            "source_commits": commits,
            "add_only": True,
        },
        "engines": [
            {"name": "E0", "path": "/verif/sim/src/e0", "serves_properties": [p for p in sorted(CHECKS) if CHECKS[p][0] == "E0"],
             "kind_free_text": "replica-network engine without tokio: real OrSWotSet/HLCTimestamp values, discrete-event queue, seeded bag network, injected wall clock"},
            {"name": "E1", "path": "/verif/sim/src/e1", "serves_properties": [p for p in sorted(CHECKS) if CHECKS[p][0] == "E1"],
             "kind_free_text": "single-node engine: paused current_thread tokio, real actors/services/backends, SimStorage with fault plan, seeded interleaver, crash = dropping the runtime"},
            {"name": "E2", "path": "/verif/sim/src/e2", "serves_properties": [p for p in sorted(CHECKS) if CHECKS[p][0] == "E2"],
             "kind_free_text": "cluster engine: patched turmoil 0.4.0 hosts running the complete store/RPC stack, harness-owned membership (or, in the real-membership family, the vendored gossip layer on virtual time with a seeded generator), storage outside the hosts"},
        ],
        "checks": checks,
        "not_applicable": na,
        "notes": "One binary (dcsim). VERIF_SEED (default 20260924) and VERIF_TIER honoured. Exit 0 held / 1 VIOLATION line / 2 harness error. Known findings: /verif/known-findings.json; regression scenarios of repaired defects: /verif/regressions/ (re-executed on every run). Self-checks: ./bin/selftest-determinism, ./bin/selftest-sensitivity.",
    }
    with open(os.path.join(ROOT, "MANIFEST.json"), "w") as f:
        json.dump(manifest, f, indent=1)
        f.write("\n")
    print(f"MANIFEST.json: {len(checks)} checks, {len(na)} not claimed")


if __name__ == "__main__":
    main()
