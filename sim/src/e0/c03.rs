//! C03 — merging replica states is commutative, associative and idempotent.

use std::collections::{BTreeMap, BTreeSet};

use datacake_crdt::OrSWotSet;
use rand::seq::SliceRandom;
use rand::Rng;
use serde::{Deserialize, Serialize};
use serde_json::Value;

use super::*;
use crate::framework::*;

#[derive(Serialize, Deserialize, Clone, Debug)]
pub struct Applied {
    pub op: usize,
    pub source: usize,
}

#[derive(Serialize, Deserialize, Clone, Debug)]
#[serde(tag = "ev")]
pub enum Gossip {
    /// replica `src` puts a copy of its current state on the network
    #[serde(rename = "send")]
    Send { src: usize },
    /// in-flight state number `msg` (in send order) is delivered to `dst` and merged
    #[serde(rename = "deliver")]
    Deliver { msg: usize, dst: usize },
}

#[derive(Serialize, Deserialize, Clone, Debug)]
pub struct Scenario {
    pub sources: usize,
    /// "A": all timestamps within one forgiveness period, arbitrary subsets/orders.
    /// "B": multi-hour history, every replica applies an in-order gap-free prefix per origin.
    pub regime: String,
    pub ops: Vec<Op>,
    pub builds: Vec<Vec<Applied>>,
    pub events: Vec<Gossip>,
    /// order of the closing all-to-all exchange (pairs dst<-src), run over current states
    pub closing: Vec<(usize, usize)>,
}

pub struct C03;

pub(crate) fn validate_regime(regime: &str, ops: &[Op], builds: &[Vec<Applied>]) -> Result<(), String> {
    for b in builds {
        for a in b {
            if a.op >= ops.len() {
                return Err("build refers to a missing op".into());
            }
        }
    }
    if ops.iter().any(|o| o.t < 1_000) {
        return Err("timestamps must be at least one second after the datacake epoch".into());
    }
    match regime {
        "A" => {
            let lo = ops.iter().map(|o| o.t).min().unwrap_or(0);
            let hi = ops.iter().map(|o| o.t).max().unwrap_or(0);
            if hi - lo >= HOUR_MS - 4 {
                return Err("regime A requires all timestamps within one forgiveness period".into());
            }
            Ok(())
        },
        "B" => {
            // per origin: applied ops are exactly a prefix of that origin's ops in timestamp
            // order, applied in that order, each once.
            let mut per_origin: BTreeMap<u8, Vec<usize>> = BTreeMap::new();
            let mut idx: Vec<usize> = (0..ops.len()).collect();
            idx.sort_by_key(|i| ops[*i].order_key());
            for i in idx {
                per_origin.entry(ops[i].node).or_default().push(i);
            }
            for b in builds {
                let mut pos: BTreeMap<u8, usize> = BTreeMap::new();
                for a in b {
                    let o = ops[a.op].node;
                    let p = pos.entry(o).or_insert(0);
                    if per_origin[&o].get(*p) != Some(&a.op) {
                        return Err("regime B requires in-order gap-free prefixes per origin".into());
                    }
                    *p += 1;
                }
            }
            Ok(())
        },
        // "X": arbitrary states (any subsets, orders, sources, multi-hour): only used by oracles
        // that are not conditioned on the gap-free / one-forgiveness-period regimes
        "X" => Ok(()),
        _ => Err("unknown regime".into()),
    }
}

fn live_eq<const N: usize>(a: &OrSWotSet<N>, b: &OrSWotSet<N>) -> bool {
    listing(a).0 == listing(b).0
}

fn merged<const N: usize>(a: &OrSWotSet<N>, b: &OrSWotSet<N>) -> OrSWotSet<N> {
    let mut x = a.clone();
    x.merge(b.clone());
    x
}

fn check_laws<const N: usize>(states: &[OrSWotSet<N>], tag: &str, keys: &BTreeSet<u64>, out: &mut Outcome) {
    let n = states.len();
    for i in 0..n {
        // a ∪ a = a
        let aa = merged(&states[i], &states[i]);
        if listing(&aa) != listing(&states[i]) {
            out.violate(
                "C03/self-merge-changes-state",
                format!("{tag}: merging state {i} into itself changed it: {} / {} -> {} / {}",
                    fmt_list(&listing(&states[i]).0), fmt_list(&listing(&states[i]).1), fmt_list(&listing(&aa).0), fmt_list(&listing(&aa).1)),
            );
        }
        for j in 0..n {
            if i == j {
                continue;
            }
            let ab = merged(&states[i], &states[j]);
            let ba = merged(&states[j], &states[i]);
            if !live_eq(&ab, &ba) {
                out.violate(
                    "C03/merge-not-commutative",
                    format!("{tag}: {i}∪{j} live {} but {j}∪{i} live {}", fmt_list(&listing(&ab).0), fmt_list(&listing(&ba).0)),
                );
            }
            for k in keys {
                if ab.get(k) != ba.get(k) {
                    out.violate("C03/merge-not-commutative", format!("{tag}: get({k}) differs between {i}∪{j} and {j}∪{i}"));
                }
            }
            let abb = merged(&ab, &states[j]);
            if listing(&abb) != listing(&ab) {
                out.violate(
                    "C03/re-merge-changes-state",
                    format!("{tag}: ({i}∪{j})∪{j} differs from {i}∪{j}: live {} dead {} vs live {} dead {}",
                        fmt_list(&listing(&abb).0), fmt_list(&listing(&abb).1), fmt_list(&listing(&ab).0), fmt_list(&listing(&ab).1)),
                );
            }
            for k in 0..n {
                if k == i || k == j {
                    continue;
                }
                let ab_c = merged(&ab, &states[k]);
                let bc = merged(&states[j], &states[k]);
                let a_bc = merged(&states[i], &bc);
                if !live_eq(&ab_c, &a_bc) {
                    out.violate(
                        "C03/merge-not-associative",
                        format!("{tag}: ({i}∪{j})∪{k} live {} but {i}∪({j}∪{k}) live {}", fmt_list(&listing(&ab_c).0), fmt_list(&listing(&a_bc).0)),
                    );
                }
            }
        }
    }
}

fn run<const N: usize>(sc: &Scenario, out: &mut Outcome) {
    if let Err(e) = validate_regime(&sc.regime, &sc.ops, &sc.builds) {
        *out = Outcome::invalid(e);
        return;
    }
    let n = sc.builds.len();
    if n < 2 || n > 5 {
        *out = Outcome::invalid("need 2..=5 replicas");
        return;
    }
    let keys: BTreeSet<u64> = sc.ops.iter().map(|o| o.key).collect();
    let mut trace = Fnv::new();
    let mut sig = Fnv::new();
    let mut states: Vec<OrSWotSet<N>> = Vec::new();
    for b in &sc.builds {
        let mut s = OrSWotSet::<N>::default();
        for a in b {
            if a.source >= N {
                *out = Outcome::invalid("source out of range");
                return;
            }
            let r = apply(&mut s, a.source, &sc.ops[a.op]);
            trace.u64(a.op as u64).u64(r as u64);
            if !r {
                out.probe("build_op_rejected");
            }
        }
        states.push(s);
    }
    let originals = states.clone();
    check_laws(&originals, "original states", &keys, out);

    // gossip phase: full states travel over a bag network (delay = any later position,
    // duplication = delivered more than once, loss = never delivered, reordering = any order)
    let mut absorbed: Vec<BTreeSet<usize>> = (0..n).map(|i| BTreeSet::from([i])).collect();
    let mut bag: Vec<(OrSWotSet<N>, BTreeSet<usize>, usize)> = Vec::new();
    let mut delivered_count: BTreeMap<usize, u32> = BTreeMap::new();
    let mut last_delivered: Option<usize> = None;
    for ev in &sc.events {
        match ev {
            Gossip::Send { src } => {
                if *src >= n {
                    *out = Outcome::invalid("bad src");
                    return;
                }
                bag.push((states[*src].clone(), absorbed[*src].clone(), *src));
                sig.u64(1).u64(*src as u64);
            },
            Gossip::Deliver { msg, dst } => {
                let Some((st, abs, src)) = bag.get(*msg).cloned() else {
                    // a delivery of a message that was never sent: drop silently (keeps
                    // shrinking simple); it is not a fault of the system
                    continue;
                };
                if *dst >= n {
                    *out = Outcome::invalid("bad dst");
                    return;
                }
                let c = delivered_count.entry(*msg).or_insert(0);
                if *c > 0 {
                    out.fault("duplicate_state_delivery");
                }
                *c += 1;
                if let Some(l) = last_delivered {
                    if *msg < l {
                        out.fault("reordered_state_delivery");
                    }
                }
                last_delivered = Some(*msg);
                states[*dst].merge(st.clone());
                let snap = listing(&states[*dst]);
                // idempotence on a reachable state
                let mut again = states[*dst].clone();
                again.merge(st);
                if listing(&again) != snap {
                    out.violate(
                        "C03/re-merge-changes-state",
                        format!("gossip: replica {dst} merged state of {src} twice and changed: live {} dead {} vs live {} dead {}",
                            fmt_list(&listing(&again).0), fmt_list(&listing(&again).1), fmt_list(&snap.0), fmt_list(&snap.1)),
                    );
                }
                absorbed[*dst].extend(abs.iter().copied());
                sig.u64(2).u64(src as u64).u64(*dst as u64).u64(snap.0.len() as u64);
                trace.u64(*msg as u64).u64(*dst as u64);
                for (k, t) in &snap.0 {
                    trace.u64(*k).u64(t.as_u64());
                }
                compare_equal_absorbed(&states, &absorbed, &keys, "during gossip", out);
            },
        }
    }
    let lost = bag.len() as u64 - delivered_count.len() as u64;
    out.fault_n("lost_state_message", lost);
    // laws on reachable (already merged) states too
    check_laws(&states, "reachable states", &keys, out);

    // closing exchange over current states
    for (dst, src) in &sc.closing {
        if *dst >= n || *src >= n || dst == src {
            *out = Outcome::invalid("bad closing pair");
            return;
        }
        let st = states[*src].clone();
        let abs = absorbed[*src].clone();
        states[*dst].merge(st);
        absorbed[*dst].extend(abs);
        compare_equal_absorbed(&states, &absorbed, &keys, "closing exchange", out);
    }
    let full: BTreeSet<usize> = (0..n).collect();
    if sc.closing.len() >= n && !absorbed.iter().all(|a| *a == full) {
        out.probe("closing_exchange_incomplete");
    }

    let mut fp = Fnv::new();
    for s in &states {
        let l = listing(s);
        for (k, t) in l.0.iter().chain(l.1.iter()) {
            fp.u64(*k).u64(t.as_u64());
        }
        fp.u64(0xfeed);
    }
    out.state_fp = fp.finish();
    trace.u64(out.state_fp);
    out.trace_hash = trace.finish();
    sig.u64(out.state_fp);
    out.signature = sig.finish();
    let distinct_originals = {
        let ls: BTreeSet<String> = originals.iter().map(|s| format!("{:?}", listing(s))).collect();
        ls.len()
    };
    out.nontrivial = distinct_originals >= 2 && sc.ops.len() >= 2;
    out.sim_ms = sc.ops.iter().map(|o| o.t).max().unwrap_or(0) - sc.ops.iter().map(|o| o.t).min().unwrap_or(0);
}

fn compare_equal_absorbed<const N: usize>(
    states: &[OrSWotSet<N>],
    absorbed: &[BTreeSet<usize>],
    keys: &BTreeSet<u64>,
    tag: &str,
    out: &mut Outcome,
) {
    for i in 0..states.len() {
        for j in (i + 1)..states.len() {
            if absorbed[i] == absorbed[j] {
                let (li, lj) = (listing(&states[i]).0, listing(&states[j]).0);
                if li != lj {
                    out.violate(
                        "C03/replicas-with-same-merged-states-differ",
                        format!("{tag}: replicas {i} and {j} both merged exactly {:?} yet expose live {} vs {}", absorbed[i], fmt_list(&li), fmt_list(&lj)),
                    );
                }
                for k in keys {
                    if states[i].get(k) != states[j].get(k) {
                        out.violate(
                            "C03/replicas-with-same-merged-states-differ",
                            format!("{tag}: get({k}) differs between replicas {i} and {j} that merged the same states"),
                        );
                    }
                }
            }
        }
    }
}

pub(crate) fn gen_builds(
    rng: &mut impl Rng,
    regime: &str,
    ops: &[Op],
    replicas: usize,
    sources: usize,
) -> Vec<Vec<Applied>> {
    let mut builds = Vec::new();
    for _ in 0..replicas {
        let mut b = Vec::new();
        if regime == "A" {
            let mut idx: Vec<usize> = (0..ops.len()).filter(|_| rng.gen_bool(0.7)).collect();
            idx.shuffle(rng);
            for i in idx {
                b.push(Applied { op: i, source: rng.gen_range(0..sources) });
                if rng.gen_bool(0.1) {
                    b.push(Applied { op: i, source: rng.gen_range(0..sources) });
                }
            }
        } else {
            let mut per_origin: BTreeMap<u8, Vec<usize>> = BTreeMap::new();
            let mut idx: Vec<usize> = (0..ops.len()).collect();
            idx.sort_by_key(|i| ops[*i].order_key());
            for i in idx {
                per_origin.entry(ops[i].node).or_default().push(i);
            }
            let mut queues: Vec<Vec<usize>> = per_origin
                .values()
                .map(|v| {
                    let k = rng.gen_range(0..=v.len());
                    v[..k].iter().rev().copied().collect()
                })
                .collect();
            loop {
                let nonempty: Vec<usize> = (0..queues.len()).filter(|q| !queues[*q].is_empty()).collect();
                if nonempty.is_empty() {
                    break;
                }
                let q = nonempty[rng.gen_range(0..nonempty.len())];
                let i = queues[q].pop().unwrap();
                b.push(Applied { op: i, source: rng.gen_range(0..sources) });
            }
        }
        builds.push(b);
    }
    builds
}

pub(crate) fn gen_base(rng: &mut impl Rng) -> u64 {
    // mostly "now-like" stamps; sometimes a few hours or only seconds after the datacake epoch,
    // where the forgiveness subtraction of the purge cut-off saturates
    (match rng.gen_range(0..20) {
        0 => rng.gen_range(1_000..50 * 60_000),
        1..=3 => rng.gen_range(2 * HOUR_MS..4 * HOUR_MS),
        _ => rng.gen_range(1_000_000_000u64..60_000_000_000),
    }) / 4 * 4
}

impl Check for C03 {
    fn id(&self) -> &'static str {
        "C03"
    }
    fn title(&self) -> &'static str {
        "Merging replica states is commutative, associative and idempotent"
    }
    fn engine(&self) -> &'static str {
        "E0 replica-network engine: 2-4 real OrSWotSet<1|2> replicas gossiping full states over a seeded bag network (delay, duplication, reordering, loss)"
    }
    fn rule(&self) -> &'static str {
        "Cases: 2-14 ops with distinct timestamps from 1-4 origins on 1-4 keys; regime A (all within one forgiveness period, each replica applies an arbitrary subset in arbitrary order through arbitrary sources, some twice) or regime B (multi-hour, each replica applies an in-order gap-free prefix per origin through arbitrary sources); then 0-14 gossip events (send a copy of the current state / deliver any in-flight copy to any replica, so copies are delayed, reordered, duplicated or lost) and a closing all-to-all exchange in seeded order. Laws are checked on all ordered pairs/triples of the original states and of the reached states; replicas that merged the same set of original states are compared after every delivery. Non-trivial = at least two original states differ and >= 2 ops. Distinct = hash of the gossip schedule and the final states."
    }
    fn assumptions(&self) -> Vec<String> {
        vec![
            "the two admissible regimes of the statement are enforced by the generator and re-validated per case".into(),
            "timestamps lie at least one second after the datacake epoch; one case in twenty sits inside the first hour after it, where the cut-off subtraction saturates".into(),
            "no purge in this check (purge is C08's subject)".into(),
        ]
    }
    fn components(&self) -> Vec<(&'static str, &'static str)> {
        vec![
            ("datacake-crdt OrSWotSet::merge / insert / delete / get / diff", "real"),
            ("state-gossip network", "simulated (seeded bag: delay, duplication, reordering, loss)"),
        ]
    }
    fn budget(&self, tier: Tier) -> Budget {
        match tier {
            Tier::Quick => Budget { wall_secs: 40, max_cases: 1_500_000, checkpoint_every: 4096, workers: 16 },
            Tier::Thorough => Budget { wall_secs: 600, max_cases: 60_000_000, checkpoint_every: 4096, workers: 16 },
        }
    }
    fn generate(&self, seed: u64, idx: u64, _tier: Tier) -> Value {
        let mut rng = rng_from(case_seed(seed, idx));
        let sources = if rng.gen_bool(0.7) { 2 } else { 1 };
        let regime = if rng.gen_bool(0.5) { "A" } else { "B" };
        let origins = rng.gen_range(1..=4u8);
        let nops = rng.gen_range(2..=14usize);
        let keys = rng.gen_range(1..=4u64);
        let base = gen_base(&mut rng);
        let span = if regime == "A" { rng.gen_range(8..HOUR_MS - 16) } else { rng.gen_range(HOUR_MS..8 * HOUR_MS) };
        let ops = gen_ops(&mut rng, nops, keys, origins, base, span, 0.4);
        let replicas = rng.gen_range(2..=4usize);
        let builds = gen_builds(&mut rng, regime, &ops, replicas, sources);
        let mut events = Vec::new();
        let mut sent = 0usize;
        for _ in 0..rng.gen_range(0..=14) {
            if sent == 0 || rng.gen_bool(0.45) {
                events.push(Gossip::Send { src: rng.gen_range(0..replicas) });
                sent += 1;
            } else {
                events.push(Gossip::Deliver { msg: rng.gen_range(0..sent), dst: rng.gen_range(0..replicas) });
            }
        }
        let mut closing = Vec::new();
        for _round in 0..2 {
            let mut pairs: Vec<(usize, usize)> = Vec::new();
            for d in 0..replicas {
                for s in 0..replicas {
                    if d != s {
                        pairs.push((d, s));
                    }
                }
            }
            pairs.shuffle(&mut rng);
            closing.extend(pairs);
        }
        serde_json::to_value(Scenario { sources, regime: regime.to_string(), ops, builds, events, closing }).unwrap()
    }
    fn execute(&self, scenario: &Value) -> Outcome {
        let sc: Scenario = match serde_json::from_value(scenario.clone()) {
            Ok(s) => s,
            Err(e) => return Outcome::invalid(format!("bad scenario: {e}")),
        };
        let mut out = Outcome::default();
        match sc.sources {
            1 => run::<1>(&sc, &mut out),
            2 => run::<2>(&sc, &mut out),
            _ => return Outcome::invalid("sources must be 1 or 2"),
        }
        out
    }
    fn shrink(&self, sc: &Value) -> Vec<Value> {
        let mut c = Vec::new();
        let Ok(s) = serde_json::from_value::<Scenario>(sc.clone()) else { return c };
        // drop gossip events / closing pairs
        c.extend(generic_shrink(sc).into_iter().filter(|v| v.get("ops") == sc.get("ops")));
        if !s.closing.is_empty() {
            let mut t = s.clone();
            t.closing.clear();
            c.push(serde_json::to_value(t).unwrap());
        }
        // drop a replica (only when gossip is gone, indices would shift otherwise)
        if s.events.is_empty() && s.closing.is_empty() && s.builds.len() > 2 {
            for r in 0..s.builds.len() {
                let mut t = s.clone();
                t.builds.remove(r);
                c.push(serde_json::to_value(t).unwrap());
            }
        }
        // drop one applied op from one build (regime validation rejects what is not allowed)
        for r in 0..s.builds.len() {
            for i in (0..s.builds[r].len()).rev() {
                let mut t = s.clone();
                t.builds[r].remove(i);
                c.push(serde_json::to_value(t).unwrap());
            }
        }
        c
    }
}
