//! C08 — purging tombstones is invisible and deletes stay deleted.
//!
//! A set-level cluster: every replica is a real `OrSWotSet<2>` + a real `HLCTimestamp` clock.
//! Direct replication goes through source 0, pull-repair (state snapshot -> diff -> removals and
//! fetched modifications as two separately scheduled batches) through source 1, exactly the
//! gating the keyspace actor applies (will_apply filter up front, batch sorted by timestamp).

use std::cell::{Cell, RefCell};
use std::collections::{BTreeMap, BinaryHeap};
use std::rc::Rc;
use std::time::Duration;

use datacake_crdt::{HLCTimestamp, Key, OrSWotSet, DATACAKE_EPOCH};
use rand::Rng;
use serde::{Deserialize, Serialize};
use serde_json::Value;

use super::*;
use crate::framework::*;

type Set = OrSWotSet<2>;

#[derive(Serialize, Deserialize, Clone, Debug)]
#[serde(tag = "ev")]
pub enum Ev {
    /// replica `r` issues put/delete of `key`; `to` lists (replica, delay ms) direct deliveries
    /// (several entries for one replica = duplicates); replicas in `lost` get no direct delivery.
    #[serde(rename = "op")]
    Op { t: u64, r: usize, key: Key, del: bool, to: Vec<(usize, u64)>, lost: Vec<usize> },
    /// replica `r` pulls from `peer`: state snapshot at t, diff at t+d1, first batch at +d2, second at +d3
    #[serde(rename = "repair")]
    Repair { t: u64, r: usize, peer: usize, d1: u64, d2: u64, d3: u64, rm_first: bool },
    #[serde(rename = "purge")]
    Purge { t: u64, r: usize },
    /// full-state sync: replica `r` merges a copy of `peer`'s set taken at t, delivered at t+d
    /// (the CRDT's own merge; scenarios that use it are judged on the local purge facts only)
    #[serde(rename = "merge")]
    Merge { t: u64, r: usize, peer: usize, d: u64 },
}

impl Ev {
    fn t(&self) -> u64 {
        match self {
            Ev::Op { t, .. } | Ev::Repair { t, .. } | Ev::Purge { t, .. } | Ev::Merge { t, .. } => *t,
        }
    }
}

#[derive(Serialize, Deserialize, Clone, Debug)]
pub struct Scenario {
    pub replicas: usize,
    /// per-replica wall clock offset in ms (may be negative)
    pub skew_ms: Vec<i64>,
    /// bound on every delivery / forced repair completion delay
    pub dmax_ms: u64,
    /// datacake time of simulation start
    pub base_ms: u64,
    pub events: Vec<Ev>,
    pub purge_in_closing: bool,
}

pub struct C08;

#[derive(Clone, Debug)]
enum Internal {
    Deliver { to: usize, op: Op, msg_ts: HLCTimestamp },
    RepairDiff { r: usize, peer: usize, snap: Rc<Set>, reply_ts: HLCTimestamp, d2: u64, d3: u64, rm_first: bool },
    RepairRemovals { r: usize, rems: Vec<(Key, HLCTimestamp)>, then_mods: Option<(u64, usize, Vec<Key>)> },
    RepairMods { r: usize, peer: usize, keys: Vec<Key>, then_rems: Option<(u64, Vec<(Key, HLCTimestamp)>)> },
    MergeState { r: usize, snap: Rc<Set> },
}

struct Queued {
    at: u64,
    seq: u64,
    what: Internal,
}
impl PartialEq for Queued {
    fn eq(&self, o: &Self) -> bool {
        self.at == o.at && self.seq == o.seq
    }
}
impl Eq for Queued {}
impl PartialOrd for Queued {
    fn partial_cmp(&self, o: &Self) -> Option<std::cmp::Ordering> {
        Some(self.cmp(o))
    }
}
impl Ord for Queued {
    fn cmp(&self, o: &Self) -> std::cmp::Ordering {
        // min-heap on (at, seq)
        (o.at, o.seq).cmp(&(self.at, self.seq))
    }
}

struct Run {
    sets: Vec<Set>,
    clocks: Vec<HLCTimestamp>,
    issued: Vec<Op>,
    trace: Fnv,
    purged: u64,
    rejected_after_purge_checks: u64,
    local_violations: Vec<(String, String)>,
    clock_errors: u64,
    /// per replica: deletes it has purged so far
    purged_log: Vec<Vec<(Key, HLCTimestamp)>>,
    still_rejects_checks: u64,
}

/// "... and afterwards still rejects any operation from the deleting node that is not newer than
/// the purged delete": re-probed after every later event on the replica.
fn check_still_rejects(run: &mut Run, r: usize, when: &str) {
    let n = run.purged_log[r].len();
    for (k, ts) in run.purged_log[r].iter().skip(n.saturating_sub(6)).copied().collect::<Vec<_>>() {
        for key in [k, 9_999_998u64] {
            run.still_rejects_checks += 1;
            let will = run.sets[r].will_apply(key, ts);
            let mut c = run.sets[r].clone();
            let ret = c.insert_with_source(0, key, ts);
            if will || ret {
                run.local_violations.push((
                    "C08/op-not-newer-than-purged-delete-accepted-later".into(),
                    format!("replica {r}, {when}: an insert of key {key} at {} (the stamp of a delete of key {k} this replica purged earlier) from the deleting node: will_apply={will} returned={ret}", fmt_ts(ts)),
                ));
                return;
            }
        }
    }
}

fn gated_apply(set: &mut Set, source: usize, items: &[(Key, HLCTimestamp, bool)]) {
    // the actor filters by will_apply before touching anything, then applies in timestamp order
    let mut valid: Vec<(Key, HLCTimestamp, bool)> = items.iter().copied().filter(|(k, t, _)| set.will_apply(*k, *t)).collect();
    valid.sort_by_key(|x| x.1);
    for (k, t, del) in valid {
        if del {
            set.delete_with_source(source, k, t);
        } else {
            set.insert_with_source(source, k, t);
        }
    }
}

fn check_purge_local(set_before: &Set, set_after: &Set, purged: &[(Key, HLCTimestamp)], viol: &mut Vec<(String, String)>, checks: &mut u64) {
    let (lb, db) = listing(set_before);
    let (la, da) = listing(set_after);
    if lb != la {
        viol.push(("C08/purge-changed-live-ids".into(), format!("live before {} after {}", fmt_list(&lb), fmt_list(&la))));
    }
    let mut expect: Vec<(Key, HLCTimestamp)> = db.iter().copied().filter(|e| !purged.contains(e)).collect();
    expect.sort();
    let mut p = purged.to_vec();
    p.sort();
    if !p.iter().all(|e| db.contains(e)) {
        viol.push(("C08/purge-returned-non-tombstone".into(), format!("purge returned {} but tombstones were {}", fmt_list(&p), fmt_list(&db))));
    }
    // "removes only tombstones": whatever the purge names is handed to Storage::remove_tombstones,
    // so it must not name an id that is live on this replica
    if let Some((k, t)) = p.iter().find(|(k, _)| lb.iter().any(|(lk, _)| lk == k)) {
        viol.push(("C08/purge-named-a-live-id".into(), format!("purge returned {k}@{} although key {k} is live ({}); the store would drop a live document", fmt_ts(*t), fmt_list(&lb))));
    }
    if da != expect {
        viol.push(("C08/purge-removed-more-than-it-returned".into(), format!("tombstones after purge {} expected {}", fmt_list(&da), fmt_list(&expect))));
    }
    // afterwards every op from the deleting node that is not newer than the purged delete is refused
    for (k, ts) in purged.iter().take(6) {
        let ms = ts.datacake_timestamp().as_millis() as u64;
        let mut probes: Vec<HLCTimestamp> = vec![*ts];
        if ms >= 4 {
            probes.push(HLCTimestamp::new(Duration::from_millis(ms - 4), ts.counter(), ts.node()));
        }
        if ts.counter() > 0 {
            probes.push(HLCTimestamp::new(Duration::from_millis(ms), ts.counter() - 1, ts.node()));
        }
        probes.push(HLCTimestamp::new(Duration::from_millis(ms.saturating_sub(60_000)), 0, ts.node()));
        for p in probes {
            for key in [*k, 9_999_999u64] {
                for del in [false, true] {
                    *checks += 1;
                    let will = set_after.will_apply(key, p);
                    let mut c = set_after.clone();
                    let ret = if del { c.delete_with_source(0, key, p) } else { c.insert_with_source(0, key, p) };
                    let same = listing(&c) == listing(set_after);
                    if will || ret || !same {
                        viol.push((
                            "C08/op-not-newer-than-purged-delete-accepted".into(),
                            format!(
                                "after purging delete {}@{} an older/equal {} of key {key} at {} from the same node: will_apply={will} returned={ret} state_unchanged={same}",
                                k, fmt_ts(*ts), if del { "delete" } else { "insert" }, fmt_ts(p)
                            ),
                        ));
                    }
                }
            }
        }
    }
}

fn simulate(sc: &Scenario, with_purge: bool, sim_t: &Rc<Cell<u64>>, out: &mut Outcome) -> Run {
    let n = sc.replicas;
    sim_t.set(0);
    let mut run = Run {
        sets: (0..n).map(|_| Set::default()).collect(),
        clocks: (0..n).map(|i| HLCTimestamp::now(0, i as u8)).collect(),
        issued: Vec::new(),
        trace: Fnv::new(),
        purged: 0,
        rejected_after_purge_checks: 0,
        local_violations: Vec::new(),
        clock_errors: 0,
        purged_log: (0..n).map(|_| Vec::new()).collect(),
        still_rejects_checks: 0,
    };
    let mut heap: BinaryHeap<Queued> = BinaryHeap::new();
    let mut seq = 0u64;
    let mut evs: Vec<(usize, &Ev)> = sc.events.iter().enumerate().collect();
    evs.sort_by_key(|(i, e)| (e.t(), *i));
    let mut next_ev = 0usize;
    loop {
        // next thing: external event or internal queue item, by time (external first on ties)
        let ext_t = evs.get(next_ev).map(|(_, e)| e.t());
        let int_t = heap.peek().map(|q| q.at);
        let take_ext = match (ext_t, int_t) {
            (None, None) => break,
            (Some(_), None) => true,
            (None, Some(_)) => false,
            (Some(a), Some(b)) => a <= b,
        };
        if take_ext {
            let (_, ev) = evs[next_ev];
            next_ev += 1;
            sim_t.set(ev.t());
            match ev {
                Ev::Op { r, key, del, to, lost, .. } => {
                    let ts = match run.clocks[*r].send() {
                        Ok(t) => t,
                        Err(_) => {
                            run.clock_errors += 1;
                            continue;
                        },
                    };
                    let ms = ts.datacake_timestamp().as_millis() as u64;
                    let op = Op { key: *key, t: ms, c: ts.counter(), node: ts.node(), del: *del };
                    debug_assert_eq!(op.ts(), ts);
                    run.issued.push(op);
                    gated_apply(&mut run.sets[*r], 0, &[(*key, ts, *del)]);
                    run.trace.u64(1).u64(*r as u64).u64(ts.as_u64());
                    let msg_ts = run.clocks[*r].send().unwrap_or(ts);
                    for (dst, delay) in to {
                        if *dst == *r || lost.contains(dst) {
                            continue;
                        }
                        seq += 1;
                        heap.push(Queued { at: ev.t() + delay, seq, what: Internal::Deliver { to: *dst, op, msg_ts } });
                    }
                },
                Ev::Repair { r, peer, d1, d2, d3, rm_first, .. } => {
                    let snap = Rc::new(run.sets[*peer].clone());
                    let reply_ts = run.clocks[*peer].send().unwrap_or(run.clocks[*peer]);
                    seq += 1;
                    heap.push(Queued {
                        at: ev.t() + d1,
                        seq,
                        what: Internal::RepairDiff { r: *r, peer: *peer, snap, reply_ts, d2: *d2, d3: *d3, rm_first: *rm_first },
                    });
                },
                Ev::Purge { r, .. } => {
                    if with_purge {
                        let before = run.sets[*r].clone();
                        let p = run.sets[*r].purge_old_deletes();
                        run.purged += p.len() as u64;
                        run.trace.u64(3).u64(*r as u64).u64(p.len() as u64);
                        check_purge_local(&before, &run.sets[*r], &p, &mut run.local_violations, &mut run.rejected_after_purge_checks);
                        run.purged_log[*r].extend(p);
                    }
                },
                Ev::Merge { r, peer, d, .. } => {
                    let snap = Rc::new(run.sets[*peer].clone());
                    seq += 1;
                    heap.push(Queued { at: ev.t() + d, seq, what: Internal::MergeState { r: *r, snap } });
                },
            }
        } else {
            let q = heap.pop().unwrap();
            sim_t.set(q.at);
            match q.what {
                Internal::Deliver { to, op, msg_ts } => {
                    if run.clocks[to].recv(&msg_ts).is_err() {
                        run.clock_errors += 1;
                    }
                    gated_apply(&mut run.sets[to], 0, &[(op.key, op.ts(), op.del)]);
                    run.trace.u64(2).u64(to as u64).u64(op.ts().as_u64());
                    check_still_rejects(&mut run, to, "after a direct delivery");
                },
                Internal::MergeState { r, snap } => {
                    run.sets[r].merge((*snap).clone());
                    run.trace.u64(7).u64(r as u64);
                    check_still_rejects(&mut run, r, "after merging a peer's state");
                },
                Internal::RepairDiff { r, peer, snap, reply_ts, d2, d3, rm_first } => {
                    if run.clocks[r].recv(&reply_ts).is_err() {
                        run.clock_errors += 1;
                    }
                    let (mods, rems) = run.sets[r].diff(&snap);
                    run.trace.u64(4).u64(r as u64).u64(mods.len() as u64).u64(rems.len() as u64);
                    let keys: Vec<Key> = mods.iter().map(|(k, _)| *k).collect();
                    seq += 1;
                    if rm_first {
                        heap.push(Queued { at: q.at + d2, seq, what: Internal::RepairRemovals { r, rems, then_mods: Some((d3, peer, keys)) } });
                    } else {
                        heap.push(Queued { at: q.at + d2, seq, what: Internal::RepairMods { r, peer, keys, then_rems: Some((d3, rems)) } });
                    }
                },
                Internal::RepairRemovals { r, rems, then_mods } => {
                    let items: Vec<(Key, HLCTimestamp, bool)> = rems.iter().map(|(k, t)| (*k, *t, true)).collect();
                    gated_apply(&mut run.sets[r], 1, &items);
                    run.trace.u64(5).u64(r as u64).u64(items.len() as u64);
                    check_still_rejects(&mut run, r, "after repair removals");
                    if let Some((d, peer, keys)) = then_mods {
                        seq += 1;
                        heap.push(Queued { at: q.at + d, seq, what: Internal::RepairMods { r, peer, keys, then_rems: None } });
                    }
                },
                Internal::RepairMods { r, peer, keys, then_rems } => {
                    // documents are fetched from the peer's store *now*: current timestamp, or gone
                    let items: Vec<(Key, HLCTimestamp, bool)> = keys.iter().filter_map(|k| run.sets[peer].get(k).map(|t| (*k, *t, false))).collect();
                    gated_apply(&mut run.sets[r], 1, &items);
                    run.trace.u64(6).u64(r as u64).u64(items.len() as u64);
                    check_still_rejects(&mut run, r, "after repair modifications");
                    if let Some((d, rems)) = then_rems {
                        seq += 1;
                        heap.push(Queued { at: q.at + d, seq, what: Internal::RepairRemovals { r, rems, then_mods: None } });
                    }
                },
            }
        }
    }
    // closing: two rounds of instantaneous pairwise repair in index order, optional purges between
    let end = sim_t.get() + 1000;
    sim_t.set(end);
    for round in 0..3 {
        for r in 0..n {
            for p in 0..n {
                if r == p {
                    continue;
                }
                let snap = run.sets[p].clone();
                let (mods, rems) = run.sets[r].diff(&snap);
                let items: Vec<(Key, HLCTimestamp, bool)> = rems.iter().map(|(k, t)| (*k, *t, true)).collect();
                gated_apply(&mut run.sets[r], 1, &items);
                let items: Vec<(Key, HLCTimestamp, bool)> = mods.iter().filter_map(|(k, _)| run.sets[p].get(k).map(|t| (*k, *t, false))).collect();
                gated_apply(&mut run.sets[r], 1, &items);
            }
            if with_purge && sc.purge_in_closing && round < 2 {
                let before = run.sets[r].clone();
                let p = run.sets[r].purge_old_deletes();
                run.purged += p.len() as u64;
                check_purge_local(&before, &run.sets[r], &p, &mut run.local_violations, &mut run.rejected_after_purge_checks);
            }
        }
    }
    let _ = out;
    run
}

fn validate(sc: &Scenario) -> Result<(), String> {
    let n = sc.replicas;
    if n < 2 || n > 5 || sc.skew_ms.len() != n {
        return Err("bad replica count / skew vector".into());
    }
    let span = sc.skew_ms.iter().max().unwrap() - sc.skew_ms.iter().min().unwrap();
    if sc.dmax_ms as i64 + span + 60_000 >= HOUR_MS as i64 {
        return Err("precondition: delivery bound + clock skew must stay below the forgiveness period".into());
    }
    if sc.base_ms < 2 * HOUR_MS + 3_600_000 {
        return Err("base too close to the datacake epoch".into());
    }
    for ev in &sc.events {
        match ev {
            Ev::Op { t, r, to, lost, .. } => {
                if *r >= n {
                    return Err("bad replica".into());
                }
                for d in 0..n {
                    if d == *r {
                        continue;
                    }
                    if lost.contains(&d) {
                        // a forced repair d <- r must start at/after t and complete within dmax
                        let ok = sc.events.iter().any(|e| matches!(e, Ev::Repair { t: rt, r: rr, peer, d1, d2, d3, .. } if *rr == d && *peer == *r && *rt >= *t && rt + d1 + d2 + d3 <= t + sc.dmax_ms));
                        if !ok {
                            return Err("precondition: an operation whose direct message is lost must reach the replica by repair within the bound".into());
                        }
                    } else if !to.iter().any(|(x, _)| *x == d) {
                        return Err("precondition: every operation must reach every replica".into());
                    }
                }
                if to.iter().any(|(x, d)| *x >= n || *d > sc.dmax_ms) {
                    return Err("precondition: delivery delay above the bound".into());
                }
            },
            Ev::Repair { r, peer, .. } => {
                if *r >= n || *peer >= n || r == peer {
                    return Err("bad repair pair".into());
                }
            },
            Ev::Purge { r, .. } => {
                if *r >= n {
                    return Err("bad replica".into());
                }
            },
            Ev::Merge { r, peer, .. } => {
                if *r >= n || *peer >= n || r == peer {
                    return Err("bad merge pair".into());
                }
            },
        }
    }
    Ok(())
}

/// one case in this many is a cluster case (see `gen_hours_scenario`)
const CLUSTER_ARM_EVERY: u64 = 9_973;

impl Check for C08 {
    fn id(&self) -> &'static str {
        "C08"
    }
    fn title(&self) -> &'static str {
        "Purging tombstones is invisible and deletes stay deleted"
    }
    fn engine(&self) -> &'static str {
        "E0 replica-network engine, hour-scale virtual time: 2-4 real OrSWotSet<2> + HLCTimestamp replicas, direct source + pull-repair source, per-node clock skew, purge at arbitrary replicas and moments; every scenario is executed twice (with and without its purge events). One case in 9 973 runs on the E2 cluster engine instead: complete nodes over simulated TCP for hours of simulated time"
    }
    fn rule(&self) -> &'static str {
        "Cases: 2-4 replicas with wall-clock skew up to +-12 min, 4-40 put/delete ops on 1-5 keys spread over 0.5-8 simulated hours, each op delivered to every other replica after a seeded delay <= dmax (5 s .. 40 min; dmax + skew span < 59 min, re-validated), with duplicates, or - lost direct message - by a forced repair inside the same bound; 0-12 extra repairs whose snapshot/diff/removal/modification steps are separately delayed and ordered, and 0-16 purge events at arbitrary replicas and times (plus purges between closing rounds); one case in six is a \"straggler\" history (one replica deletes a key and keeps writing every 1-6 minutes for two more hours, part of its messages taking up to dmax of 20-40 min, with 6-14 purges 61-135 minutes after the delete: stamps of one origin arrive out of order around the purge of that delete); a fifth of the cases additionally merge full peer states (OrSWotSet::merge) at seeded times - those are judged on the local facts only. Oracles: local purge facts at every purge, and after every later event on that replica a probe that an operation of the deleting node carrying the purged delete's stamp is still refused; differential (identical scenario without purge events must end with identical live ids+timestamps on every replica); absolute last-writer-wins when the purge-free run matches it. Non-trivial = at least one tombstone was actually purged and >= 1 delete issued. Distinct = hash of the event-kind schedule and final state. Cluster arm (one case in 9 973): 2-4 complete nodes (real store, keyspace actors and their hourly purge pass, poller every 5-10 s, distributor, RPC stack; harness-made views) for 2.5-4.5 simulated hours: 2-3 bursts of put/put_many/del/del_many on 4-14 ids, 61-80 min apart, each with a half in which seeded nodes believe they have no peers (their writes travel by anti-entropy) and a half with complete views (direct replication), so that both sources of the sets see every origin and tombstones become purgeable; link holds and outages with restart of at most 6 min, skew within +-5 min, clock jumps, a failing storage call, storage latency up to 400 ms, writes landing within -0.3..+2.5 s of the full hour, and (70 % of the nodes) a store whose remove_tombstones removes whatever row a key names. Oracle: at every quiet point (>= 8 min after the last fault or operation) and after the closing cycles every running node holds exactly the last-writer-wins live documents of the operations issued so far; set == store on every node at the end. Non-trivial there = the nodes' own purge pass removed at least one tombstone."
    }
    fn assumptions(&self) -> Vec<String> {
        vec![
            "timely histories only (statement precondition): enforced by construction and re-validated per case; otherwise exit 2, never a violation".into(),
            "E0 cases: the replication glue (will_apply gate, timestamp-sorted batches, modifications fetched at apply time) is re-stated in the harness at set level; the cluster arm runs the real actors/services/purge task".into(),
            "cluster arm: timeliness is validated per scenario (skew within +-5 min, holds/outages <= 6 min, poller <= 10 s, quiet points >= 8 min after the last fault or operation, no replayed messages); chitchat is a stub (harness-made views)".into(),
        ]
    }
    fn components(&self) -> Vec<(&'static str, &'static str)> {
        vec![
            ("datacake-crdt OrSWotSet (insert/delete/diff/purge_old_deletes/will_apply) and HLCTimestamp (send/recv)", "real"),
            ("wall clocks", "injected per node (skew) via hook H1"),
            ("network, repair scheduling", "simulated discrete-event queue"),
            ("keyspace actor / storage / RPC", "E0 cases: stub (gating logic re-stated at set level). Cluster arm: real store handle, keyspace actors + hourly purge task, poller, distributor, services and clients, RPC over simulated TCP (turmoil, vendored); SimStorage outside the hosts; harness-made membership views"),
        ]
    }
    fn budget(&self, tier: Tier) -> Budget {
        match tier {
            Tier::Quick => Budget { wall_secs: 60, max_cases: 500_000, checkpoint_every: 1024, workers: 16 },
            Tier::Thorough => Budget { wall_secs: 900, max_cases: 20_000_000, checkpoint_every: 1024, workers: 16 },
        }
    }
    fn generate(&self, seed: u64, idx: u64, _tier: Tier) -> Value {
        let mut rng = rng_from(case_seed(seed, idx));
        // cluster arm: complete nodes (real store, actors, hourly purge pass, poller, distributor,
        // RPC stack) running for hours of simulated time
        if idx % CLUSTER_ARM_EVERY == CLUSTER_ARM_EVERY - 1 {
            return serde_json::json!({ "cluster": crate::e2::c01::gen_hours_scenario(&mut rng) });
        }
        let n = rng.gen_range(2..=4usize);
        let max_skew: i64 = *[0i64, 60_000, 300_000, 720_000].get(rng.gen_range(0..4)).unwrap();
        let skew_ms: Vec<i64> = (0..n).map(|_| if max_skew == 0 { 0 } else { rng.gen_range(-max_skew..=max_skew) }).collect();
        let span = skew_ms.iter().max().unwrap() - skew_ms.iter().min().unwrap();
        let room = (HOUR_MS as i64 - 120_000 - span).max(10_000) as u64;
        let dmax_ms = match rng.gen_range(0..4) {
            0 => 5_000.min(room),
            1 => rng.gen_range(5_000..600_000).min(room),
            _ => rng.gen_range(600_000..2_400_000).min(room),
        };
        let total = if rng.gen_bool(0.8) { rng.gen_range(2 * HOUR_MS..10 * HOUR_MS) } else { rng.gen_range(HOUR_MS / 2..2 * HOUR_MS) };
        // "straggler" family (one case in six): one replica deletes a key and keeps writing every few
        // minutes for two more hours; part of its messages take up to dmax, so stamps of one origin
        // arrive out of order while purges of that early delete fall in between
        let straggler = rng.gen_bool(1.0 / 6.0);
        let dmax_ms = if straggler { rng.gen_range(1_200_000..2_400_000u64).min(room) } else { dmax_ms };
        let nops = if straggler { rng.gen_range(0..=8usize) } else { rng.gen_range(6..=60usize) };
        let keys = rng.gen_range(1..=5u64);
        let mut events = Vec::new();
        if straggler {
            let w = rng.gen_range(0..n);
            let t0 = rng.gen_range(0..total / 4);
            let fan = |rng: &mut rand::rngs::SmallRng, slow: bool| -> Vec<(usize, u64)> {
                let mut to = Vec::new();
                for d in 0..n {
                    if d != w {
                        let copies = if rng.gen_bool(0.2) { 2 } else { 1 };
                        for _ in 0..copies {
                            let delay = if slow && rng.gen_bool(0.4) { rng.gen_range(0..=dmax_ms) } else { rng.gen_range(0..=dmax_ms.min(3_000)) };
                            to.push((d, delay));
                        }
                    }
                }
                to
            };
            let to = fan(&mut rng, false);
            events.push(Ev::Op { t: t0, r: w, key: 0, del: false, to, lost: Vec::new() });
            let to = fan(&mut rng, false);
            events.push(Ev::Op { t: t0 + 10_000, r: w, key: 0, del: true, to, lost: Vec::new() });
            let mut t = t0 + 10_000;
            while t < t0 + 130 * 60_000 {
                t += rng.gen_range(60_000..360_000);
                let to = fan(&mut rng, true);
                events.push(Ev::Op { t, r: w, key: 1 + rng.gen_range(0..keys), del: rng.gen_bool(0.3), to, lost: Vec::new() });
            }
            for _ in 0..rng.gen_range(6..=14) {
                events.push(Ev::Purge { t: t0 + rng.gen_range(61 * 60_000..135 * 60_000), r: rng.gen_range(0..n) });
            }
        }
        let lossy = rng.gen_bool(0.6);
        for _ in 0..nops {
            let t = rng.gen_range(0..total);
            let r = rng.gen_range(0..n);
            let mut to = Vec::new();
            let mut lost = Vec::new();
            for d in 0..n {
                if d == r {
                    continue;
                }
                if rng.gen_bool(if lossy { 0.45 } else { 0.1 }) && dmax_ms > 20_000 {
                    lost.push(d);
                    let rt = t + rng.gen_range(0..dmax_ms / 4);
                    let left = t + dmax_ms - rt;
                    let d1 = rng.gen_range(0..=left / 3);
                    let d2 = rng.gen_range(0..=left / 3);
                    let d3 = rng.gen_range(0..=left / 3);
                    events.push(Ev::Repair { t: rt, r: d, peer: r, d1, d2, d3, rm_first: rng.gen_bool(0.5) });
                } else {
                    let copies = if rng.gen_bool(0.2) { 2 } else { 1 };
                    for _ in 0..copies {
                        let delay = if rng.gen_bool(0.4) { rng.gen_range(0..=dmax_ms) } else { rng.gen_range(0..=dmax_ms.min(3_000)) };
                        to.push((d, delay));
                    }
                }
            }
            events.push(Ev::Op { t, r, key: rng.gen_range(0..keys), del: rng.gen_bool(0.45), to, lost });
        }
        for _ in 0..rng.gen_range(0..=30) {
            let r = rng.gen_range(0..n);
            let mut peer = rng.gen_range(0..n);
            if peer == r {
                peer = (peer + 1) % n;
            }
            events.push(Ev::Repair {
                t: rng.gen_range(0..total + dmax_ms),
                r,
                peer,
                d1: rng.gen_range(0..30_000),
                d2: rng.gen_range(0..30_000),
                d3: rng.gen_range(0..30_000),
                rm_first: rng.gen_bool(0.5),
            });
        }
        for _ in 0..rng.gen_range(0..=16) {
            events.push(Ev::Purge { t: rng.gen_range(total / 3..total + dmax_ms), r: rng.gen_range(0..n) });
        }
        if rng.gen_bool(0.2) {
            for _ in 0..rng.gen_range(1..=8) {
                let r = rng.gen_range(0..n);
                let mut peer = rng.gen_range(0..n);
                if peer == r {
                    peer = (peer + 1) % n;
                }
                events.push(Ev::Merge { t: rng.gen_range(0..total + dmax_ms), r, peer, d: rng.gen_range(0..60_000) });
            }
        }
        events.sort_by_key(|e| e.t());
        let base_ms = rng.gen_range(1_000_000_000u64..60_000_000_000) / 4 * 4;
        serde_json::to_value(Scenario { replicas: n, skew_ms, dmax_ms, base_ms, events, purge_in_closing: rng.gen_bool(0.5) }).unwrap()
    }
    fn isolate(&self, scenario: &Value) -> bool {
        scenario.get("cluster").is_some()
    }
    fn execute(&self, scenario: &Value) -> Outcome {
        if let Some(c) = scenario.get("cluster") {
            let sc: crate::e2::c01::Scenario = match serde_json::from_value(c.clone()) {
                Ok(s) => s,
                Err(e) => return Outcome::invalid(format!("bad cluster scenario: {e}")),
            };
            return match crate::e2::c01::run_cluster(&sc, "C08") {
                Ok(mut r) => {
                    crate::e2::c01::judge_convergence(&mut r);
                    for v in r.out.violations.iter_mut() {
                        if let Some(rest) = v.class.strip_prefix("C01/") {
                            v.class = format!("C08/cluster/{rest}");
                        }
                    }
                    if !r.checkpoint_diffs.is_empty() {
                        let lost = r.checkpoint_diffs.iter().any(|d| d.contains("is a put at"));
                        let back = r.checkpoint_diffs.iter().any(|d| d.contains("is a delete at"));
                        let class = match (back, lost) {
                            (true, _) => "C08/cluster/deleted-document-live-at-a-quiet-point",
                            (false, true) => "C08/cluster/live-document-lost-or-stale-at-a-quiet-point",
                            _ => "C08/cluster/unwritten-document-live-at-a-quiet-point",
                        };
                        r.out.violate(class, r.checkpoint_diffs.iter().take(4).cloned().collect::<Vec<_>>().join("; "));
                    }
                    for (n, diffs) in r.set_store_diffs.clone() {
                        if !diffs.is_empty() {
                            r.out.violate("C08/cluster/set-and-store-disagree-at-quiescence", format!("node {n}: {}", diffs.join("; ")));
                        }
                    }
                    let purged = r.out.probes.get("tombstones_purged_by_the_nodes_own_pass").copied().unwrap_or(0);
                    r.out.nontrivial = purged > 0;
                    r.out.probe("cluster_arm_case");
                    r.out
                },
                Err(e) => Outcome::invalid(e),
            };
        }
        let sc: Scenario = match serde_json::from_value(scenario.clone()) {
            Ok(s) => s,
            Err(e) => return Outcome::invalid(format!("bad scenario: {e}")),
        };
        if let Err(e) = validate(&sc) {
            return Outcome::invalid(e);
        }
        let mut out = Outcome::default();
        let sim_t = Rc::new(Cell::new(0u64));
        let st = sim_t.clone();
        let skews = sc.skew_ms.clone();
        let base = sc.base_ms;
        datacake_crdt::verif::set_wall_clock(Some(Box::new(move |node| {
            let sk = skews.get(node as usize).copied().unwrap_or(0);
            let ms = (base + st.get()) as i64 + sk;
            DATACAKE_EPOCH + Duration::from_millis(ms as u64)
        })));
        let with = simulate(&sc, true, &sim_t, &mut out);
        let without = simulate(&sc, false, &sim_t, &mut out);
        datacake_crdt::verif::set_wall_clock(None);

        for (c, d) in &with.local_violations {
            out.violate(c.clone(), d.clone());
        }
        out.fault_n("tombstones_purged", with.purged);
        out.probe_n("older_op_refused_after_purge_checks", with.rejected_after_purge_checks);
        out.probe_n("still_refused_later_checks", with.still_rejects_checks);
        let uses_merge = sc.events.iter().any(|e| matches!(e, Ev::Merge { .. }));
        out.probe_n("clock_errors", with.clock_errors);
        if with.issued != without.issued {
            return Outcome::invalid("harness: purge changed the issued timestamps");
        }
        let n = sc.replicas;
        let truth = lww_live(&with.issued);
        let base_ok = (0..n).all(|r| listing(&without.sets[r]).0 == truth);
        if !base_ok {
            out.probe("purge_free_run_not_lww");
        }
        for r in 0..n {
            if uses_merge {
                // full-state merges are not the store's replication protocol: such scenarios are
                // judged on the local purge facts only
                break;
            }
            let a = listing(&with.sets[r]).0;
            let b = listing(&without.sets[r]).0;
            if a != b {
                let resurrected: Vec<_> = a.iter().filter(|x| !b.contains(x)).copied().collect();
                let lost: Vec<_> = b.iter().filter(|x| !a.contains(x)).copied().collect();
                let class = if !resurrected.is_empty() && base_ok { "C08/deleted-document-reappears-with-purge" } else if !lost.is_empty() && base_ok { "C08/live-document-lost-with-purge" } else { "C08/purging-cluster-differs-from-never-purging-cluster" };
                out.violate(
                    class,
                    format!("replica {r}: with purge live {} but without purge live {} (only with purge: {}, only without: {})", fmt_list(&a), fmt_list(&b), fmt_list(&resurrected), fmt_list(&lost)),
                );
            }
        }
        let dels = sc.events.iter().filter(|e| matches!(e, Ev::Op { del: true, .. })).count();
        out.nontrivial = with.purged > 0 && dels > 0;
        for e in &sc.events {
            match e {
                Ev::Op { to, lost, .. } => {
                    out.fault_n("lost_direct_message", lost.len() as u64);
                    let mut per: BTreeMap<usize, u32> = BTreeMap::new();
                    for (d, _) in to {
                        *per.entry(*d).or_insert(0) += 1;
                    }
                    out.fault_n("duplicate_delivery", per.values().filter(|c| **c > 1).count() as u64);
                },
                Ev::Repair { .. } => out.fault("repair_exchange"),
                Ev::Purge { .. } => out.fault("purge_event"),
                Ev::Merge { .. } => out.fault("full_state_merge"),
            }
        }
        if sc.skew_ms.iter().any(|s| *s != 0) {
            out.fault("clock_skew");
        }
        let mut sig = Fnv::new();
        for e in &sc.events {
            match e {
                Ev::Op { r, key, del, .. } => sig.u64(1).u64(*r as u64).u64(*key).u64(*del as u64),
                Ev::Repair { r, peer, rm_first, .. } => sig.u64(2).u64(*r as u64).u64(*peer as u64).u64(*rm_first as u64),
                Ev::Purge { r, .. } => sig.u64(3).u64(*r as u64),
                Ev::Merge { r, peer, .. } => sig.u64(4).u64(*r as u64).u64(*peer as u64),
            };
        }
        let mut fp = Fnv::new();
        for s in &with.sets {
            for (k, t) in listing(s).0 {
                fp.u64(k).u64(t.as_u64());
            }
            fp.u64(0xee);
        }
        out.state_fp = fp.finish();
        sig.u64(out.state_fp).u64(with.purged);
        out.signature = sig.finish();
        let mut tr = with.trace.clone();
        tr.u64(without.trace.finish()).u64(out.state_fp);
        out.trace_hash = tr.finish();
        out.sim_ms = sc.events.iter().map(|e| e.t()).max().unwrap_or(0);
        out
    }
    fn shrink(&self, sc: &Value) -> Vec<Value> {
        if let Some(c) = sc.get("cluster") {
            return crate::e2::c01::shrink_cluster(c).into_iter().map(|v| serde_json::json!({ "cluster": v })).collect();
        }
        let mut c = generic_shrink(sc);
        if let Ok(s) = serde_json::from_value::<Scenario>(sc.clone()) {
            if s.skew_ms.iter().any(|x| *x != 0) {
                let mut t = s.clone();
                t.skew_ms = vec![0; s.replicas];
                c.push(serde_json::to_value(t).unwrap());
            }
            if s.purge_in_closing {
                let mut t = s.clone();
                t.purge_in_closing = false;
                c.push(serde_json::to_value(t).unwrap());
            }
            // drop duplicate deliveries / zero the delays
            for (i, e) in s.events.iter().enumerate() {
                if let Ev::Op { to, .. } = e {
                    if to.iter().any(|(_, d)| *d != 0) {
                        let mut t = s.clone();
                        if let Ev::Op { to, .. } = &mut t.events[i] {
                            for x in to.iter_mut() {
                                x.1 = 0;
                            }
                        }
                        c.push(serde_json::to_value(t).unwrap());
                    }
                }
            }
        }
        c
    }
}

#[allow(dead_code)]
fn _unused(_: RefCell<()>) {}
