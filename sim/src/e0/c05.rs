//! C05 — the computed difference is exactly what a replica lacks; one exchange repairs.

use std::collections::BTreeMap;

use datacake_crdt::{HLCTimestamp, Key, OrSWotSet};
use rand::seq::SliceRandom;
use rand::Rng;
use serde::{Deserialize, Serialize};
use serde_json::Value;

use super::c03::{gen_base, gen_builds, validate_regime, Applied};
use super::*;
use crate::framework::*;

#[derive(Serialize, Deserialize, Clone, Debug)]
pub struct Scenario {
    pub sources: usize,
    pub regime: String,
    pub ops: Vec<Op>,
    /// builds[0] = replica a (the one repairing), builds[1] = peer b
    pub builds: Vec<Vec<Applied>>,
    pub purge_a: bool,
    pub purge_b: bool,
    /// source the repaired entries are applied through
    pub apply_source: usize,
    /// permutation seed for the interleaved application order
    pub order: u64,
    /// "rm_first" | "mod_first" | "interleaved"
    pub split: String,
    /// apply each batch sorted by timestamp (as the keyspace actor does) or in list order
    pub sort_batches: bool,
}

pub struct C05;

#[derive(Clone, Copy, Debug, PartialEq, Eq, PartialOrd, Ord)]
struct Item {
    key: Key,
    ts: HLCTimestamp,
    del: bool,
}

fn model_diff<const N: usize>(a: &OrSWotSet<N>, b: &OrSWotSet<N>) -> (Vec<(Key, HLCTimestamp)>, Vec<(Key, HLCTimestamp)>) {
    let (a_live, a_dead) = listing(a);
    let (b_live, b_dead) = listing(b);
    let a_live: BTreeMap<Key, HLCTimestamp> = a_live.into_iter().collect();
    let a_dead: BTreeMap<Key, HLCTimestamp> = a_dead.into_iter().collect();
    let lacks = |k: Key, ts: HLCTimestamp| -> bool {
        if let Some(t) = a_live.get(&k) {
            *t < ts
        } else if let Some(t) = a_dead.get(&k) {
            *t < ts
        } else {
            // nothing held: listed unless older than the purge cut-off for that origin,
            // observed through the public will-apply query (key not held => cut-off only)
            a.will_apply(k, ts)
        }
    };
    let mods = b_live.into_iter().filter(|(k, t)| lacks(*k, *t)).collect();
    let rems = b_dead.into_iter().filter(|(k, t)| lacks(*k, *t)).collect();
    (mods, rems)
}

/// Applies the items in plan order. Returns the items that the set refused although the
/// will-apply query accepted them on the state the difference was computed against: those were
/// cut off *during* the exchange (an earlier-applied, younger item from the same origin moved
/// the origin's cut-off past them).
fn apply_items<const N: usize>(s: &mut OrSWotSet<N>, source: usize, items: &[Item], out: &mut Outcome) -> Vec<Item> {
    let acceptable: Vec<bool> = items.iter().map(|it| s.will_apply(it.key, it.ts)).collect();
    let mut cut = Vec::new();
    for (it, ok_before) in items.iter().zip(acceptable) {
        let still = s.will_apply(it.key, it.ts);
        let r = if it.del {
            s.delete_with_source(source, it.key, it.ts)
        } else {
            s.insert_with_source(source, it.key, it.ts)
        };
        if !r {
            out.probe("repair_item_rejected");
            if ok_before && !still {
                cut.push(*it);
            }
        }
    }
    cut
}

fn plan(sc: &Scenario, mods: &[(Key, HLCTimestamp)], rems: &[(Key, HLCTimestamp)]) -> Vec<Item> {
    let mut m: Vec<Item> = mods.iter().map(|(k, t)| Item { key: *k, ts: *t, del: false }).collect();
    let mut r: Vec<Item> = rems.iter().map(|(k, t)| Item { key: *k, ts: *t, del: true }).collect();
    let mut rng = rng_from(sc.order);
    if sc.sort_batches {
        m.sort_by_key(|i| i.ts);
        r.sort_by_key(|i| i.ts);
    } else {
        m.shuffle(&mut rng);
        r.shuffle(&mut rng);
    }
    match sc.split.as_str() {
        "rm_first" => {
            r.extend(m);
            r
        },
        "mod_first" => {
            m.extend(r);
            m
        },
        _ => {
            // interleave the two batches in several alternating chunks, keeping each batch's order
            let mut outv = Vec::new();
            let (mut i, mut j) = (0, 0);
            while i < m.len() || j < r.len() {
                let take_m = j >= r.len() || (i < m.len() && rng.gen_bool(0.5));
                if take_m {
                    outv.push(m[i]);
                    i += 1;
                } else {
                    outv.push(r[j]);
                    j += 1;
                }
            }
            outv
        },
    }
}

fn run<const N: usize>(sc: &Scenario, out: &mut Outcome) {
    if let Err(e) = validate_regime(&sc.regime, &sc.ops, &sc.builds) {
        *out = Outcome::invalid(e);
        return;
    }
    if sc.builds.len() != 2 || sc.apply_source >= N {
        *out = Outcome::invalid("need exactly two replicas and a valid source");
        return;
    }
    let mut trace = Fnv::new();
    let mut st: Vec<OrSWotSet<N>> = Vec::new();
    for b in &sc.builds {
        let mut s = OrSWotSet::<N>::default();
        for ap in b {
            if ap.source >= N {
                *out = Outcome::invalid("source out of range");
                return;
            }
            let r = apply(&mut s, ap.source, &sc.ops[ap.op]);
            trace.u64(ap.op as u64).u64(r as u64);
        }
        st.push(s);
    }
    let (mut a, mut b) = (st[0].clone(), st[1].clone());
    if sc.purge_a {
        let p = a.purge_old_deletes();
        out.fault_n("purged_tombstones", p.len() as u64);
    }
    if sc.purge_b {
        let p = b.purge_old_deletes();
        out.fault_n("purged_tombstones", p.len() as u64);
    }

    // 1. exactness of the difference, both directions
    for (x, y, tag) in [(&a, &b, "a.diff(b)"), (&b, &a, "b.diff(a)")] {
        let (mut mods, mut rems) = x.diff(y);
        mods.sort();
        rems.sort();
        for (k, t) in &rems {
            if y.get(k).is_some() {
                out.violate(
                    "C05/diff-lists-live-key-as-removal",
                    format!("{tag}: key {k} is listed as a removal at {} although the peer has it live at {:?}", fmt_ts(*t), y.get(k).map(|t| fmt_ts(*t))),
                );
            }
            if mods.iter().any(|(mk, _)| mk == k) {
                out.violate("C05/diff-lists-key-twice", format!("{tag}: key {k} is listed both as a modification and as a removal"));
            }
        }
        let (wm, wr) = model_diff(x, y);
        if mods != wm {
            out.violate(
                "C05/diff-modified-list-wrong",
                format!("{tag}: modified {} but the peer is strictly newer / not cut off exactly for {}", fmt_list(&mods), fmt_list(&wm)),
            );
        }
        if rems != wr {
            out.violate(
                "C05/diff-removed-list-wrong",
                format!("{tag}: removed {} but the peer is strictly newer / not cut off exactly for {}", fmt_list(&rems), fmt_list(&wr)),
            );
        }
        trace.u64(mods.len() as u64).u64(rems.len() as u64);
    }

    let (mods, rems) = a.diff(&b);
    let nontrivial_diff = !mods.is_empty() && !rems.is_empty();
    let mut sig = Fnv::new();
    sig.str(&sc.regime).str(&sc.split).u64(sc.sort_batches as u64).u64(sc.apply_source as u64);
    for (k, t) in &mods {
        sig.u64(*k).u64(t.node() as u64);
    }
    sig.u64(0xabc);
    for (k, t) in &rems {
        sig.u64(*k).u64(t.node() as u64);
    }

    // 2. one exchange repairs (only claimed under C03's condition: states built from operations)
    if !sc.purge_a && !sc.purge_b && sc.regime != "X" {
        let items = plan(sc, &mods, &rems);
        let mut a2 = a.clone();
        let cut_a = apply_items(&mut a2, sc.apply_source, &items, out);
        let (m2, r2) = a2.diff(&b);
        if !m2.is_empty() || !r2.is_empty() {
            let explained = m2.iter().all(|(k, t)| cut_a.iter().any(|c| c.key == *k && c.ts == *t && !c.del))
                && r2.iter().all(|(k, t)| cut_a.iter().any(|c| c.key == *k && c.ts == *t && c.del));
            out.violate(
                if explained { "C05/rediff-not-empty/item-cut-off-mid-exchange-by-younger-item-of-same-origin" } else { "C05/rediff-not-empty-after-applying-diff" },
                format!(
                    "after applying modified {} removed {} (split {}, sorted {}, source {}) a still lacks modified {} removed {}",
                    fmt_list(&mods), fmt_list(&rems), sc.split, sc.sort_batches, sc.apply_source, fmt_list(&m2), fmt_list(&r2)
                ),
            );
        }
        // mutual exchange, simultaneous (both diffs against the original states)
        let (bm, br) = b.diff(&a);
        let items_b = plan(sc, &bm, &br);
        let mut b2 = b.clone();
        let cut_b = apply_items(&mut b2, sc.apply_source, &items_b, out);
        if listing(&a2).0 != listing(&b2).0 {
            out.violate(
                if !cut_a.is_empty() || !cut_b.is_empty() { "C05/replicas-differ-after-mutual-exchange/item-cut-off-mid-exchange" } else { "C05/replicas-differ-after-mutual-exchange" },
                format!("simultaneous exchange: a live {} but b live {}", fmt_list(&listing(&a2).0), fmt_list(&listing(&b2).0)),
            );
        }
        // mutual exchange, sequential (b diffs against the already repaired a)
        let (bm, br) = b.diff(&a2);
        let items_b = plan(sc, &bm, &br);
        let mut b3 = b.clone();
        let cut_b3 = apply_items(&mut b3, sc.apply_source, &items_b, out);
        if listing(&a2).0 != listing(&b3).0 {
            out.violate(
                if !cut_a.is_empty() || !cut_b3.is_empty() { "C05/replicas-differ-after-mutual-exchange/item-cut-off-mid-exchange" } else { "C05/replicas-differ-after-mutual-exchange" },
                format!("sequential exchange: a live {} but b live {}", fmt_list(&listing(&a2).0), fmt_list(&listing(&b3).0)),
            );
        }
        let (m3, r3) = b3.diff(&a2);
        if !m3.is_empty() || !r3.is_empty() {
            let explained = m3.iter().all(|(k, t)| cut_b3.iter().any(|c| c.key == *k && c.ts == *t && !c.del))
                && r3.iter().all(|(k, t)| cut_b3.iter().any(|c| c.key == *k && c.ts == *t && c.del));
            out.violate(
                if explained { "C05/rediff-not-empty/item-cut-off-mid-exchange-by-younger-item-of-same-origin" } else { "C05/rediff-not-empty-after-applying-diff" },
                format!("after the sequential exchange b still lacks modified {} removed {}", fmt_list(&m3), fmt_list(&r3)),
            );
        }
        let mut fp = Fnv::new();
        for (k, t) in listing(&a2).0.iter().chain(listing(&a2).1.iter()) {
            fp.u64(*k).u64(t.as_u64());
        }
        out.state_fp = fp.finish();
    } else {
        out.probe(if sc.regime == "X" { "exactness_only_case_arbitrary_states" } else { "exactness_only_case_with_purge" });
    }
    out.nontrivial = nontrivial_diff || ((sc.purge_a || sc.purge_b || sc.regime == "X") && (!mods.is_empty() || !rems.is_empty()));
    trace.u64(out.state_fp);
    out.trace_hash = trace.finish();
    out.signature = sig.finish();
    out.sim_ms = sc.ops.iter().map(|o| o.t).max().unwrap_or(0) - sc.ops.iter().map(|o| o.t).min().unwrap_or(0);
}

impl Check for C05 {
    fn id(&self) -> &'static str {
        "C05"
    }
    fn title(&self) -> &'static str {
        "The computed difference is exactly what a replica lacks; one exchange repairs"
    }
    fn engine(&self) -> &'static str {
        "E0 replica-network engine: two real OrSWotSet<1|2> replicas, diff computed on the real sets and applied in seeded splits/orders"
    }
    fn rule(&self) -> &'static str {
        "Cases: two replicas built as in C03 (regime A: arbitrary subsets/orders/sources within one forgiveness period; regime B: multi-hour in-order gap-free prefixes), optionally purged, or built arbitrarily - any subsets, orders, sources over multi-hour spans, i.e. with gaps - (both: exactness clause only). The difference is compared with a model that lists a key iff the peer's entry is strictly newer than what the replica holds, or - nothing held - the will-apply query accepts it; then the difference is applied removal-first / modification-first / interleaved, batches in timestamp order (as the actor does) or shuffled, through source 0 or 1; re-diff must be empty and a mutual exchange (simultaneous and sequential) must equalise live ids and timestamps. Non-trivial = the difference has both a modification and a removal (or is non-empty for a purged / arbitrary state). Distinct = hash of (regime, split, order flags, the difference's keys and origins)."
    }
    fn assumptions(&self) -> Vec<String> {
        vec![
            "the replica's purge cut-off is observed through will_apply on keys it does not hold, not through private fields".into(),
            "the repair clause is checked only for un-purged states (the statement ties it to C03's condition)".into(),
            "timestamps lie at least one second after the datacake epoch (one case in twenty inside the first hour after it)".into(),
        ]
    }
    fn components(&self) -> Vec<(&'static str, &'static str)> {
        vec![
            ("datacake-crdt OrSWotSet::diff / insert / delete / purge_old_deletes / will_apply", "real"),
            ("get_state -> Diff -> MultiDel/MultiSet actor path", "not in this check (exercised end to end by C01's explicit repair phase)"),
        ]
    }
    fn budget(&self, tier: Tier) -> Budget {
        match tier {
            Tier::Quick => Budget { wall_secs: 40, max_cases: 6_000_000, checkpoint_every: 4096, workers: 16 },
            Tier::Thorough => Budget { wall_secs: 600, max_cases: 300_000_000, checkpoint_every: 4096, workers: 16 },
        }
    }
    fn generate(&self, seed: u64, idx: u64, _tier: Tier) -> Value {
        let mut rng = rng_from(case_seed(seed, idx));
        let sources = if rng.gen_bool(0.75) { 2 } else { 1 };
        let regime = match rng.gen_range(0..10) {
            0..=3 => "A",
            4..=6 => "B",
            _ => "X",
        };
        let origins = rng.gen_range(1..=3u8);
        let nops = rng.gen_range(1..=12usize);
        let keys = rng.gen_range(1..=4u64);
        let base = gen_base(&mut rng);
        let span = if regime == "A" { rng.gen_range(8..HOUR_MS - 16) } else { rng.gen_range(HOUR_MS..8 * HOUR_MS) };
        let ops = gen_ops(&mut rng, nops, keys, origins, base, span, 0.45);
        let builds = gen_builds(&mut rng, if regime == "X" { "A" } else { regime }, &ops, 2, sources);
        let purge = rng.gen_bool(0.2);
        let sc = Scenario {
            sources,
            regime: regime.to_string(),
            ops,
            builds,
            purge_a: purge && rng.gen_bool(0.6),
            purge_b: purge && rng.gen_bool(0.6),
            apply_source: if sources == 2 && rng.gen_bool(0.8) { 1 } else { 0 },
            order: rng.gen(),
            split: ["rm_first", "mod_first", "interleaved"][rng.gen_range(0..3)].to_string(),
            sort_batches: rng.gen_bool(0.5),
        };
        serde_json::to_value(sc).unwrap()
    }
    fn execute(&self, scenario: &Value) -> Outcome {
        let sc: Scenario = match serde_json::from_value(scenario.clone()) {
            Ok(s) => s,
            Err(e) => return Outcome::invalid(format!("bad scenario: {e}")),
        };
        let mut out = Outcome::default();
        match sc.sources {
            1 => run::<1>(&sc, &mut out),
            2 => run::<2>(&sc, &mut out),
            _ => return Outcome::invalid("sources must be 1 or 2"),
        }
        out
    }
    fn shrink(&self, sc: &Value) -> Vec<Value> {
        let mut c = Vec::new();
        let Ok(s) = serde_json::from_value::<Scenario>(sc.clone()) else { return c };
        for r in 0..s.builds.len() {
            for i in (0..s.builds[r].len()).rev() {
                let mut t = s.clone();
                t.builds[r].remove(i);
                c.push(serde_json::to_value(t).unwrap());
            }
        }
        for (k, v) in [("purge_a", serde_json::json!(false)), ("purge_b", serde_json::json!(false)), ("sort_batches", serde_json::json!(true)), ("split", serde_json::json!("rm_first"))] {
            c.extend(shrink_set(sc, k, &[v]));
        }
        c
    }
}
