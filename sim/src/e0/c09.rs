//! C09 — hybrid clock stamps are unique, strictly increasing and respect causality.

use std::cell::Cell;
use std::rc::Rc;
use std::time::Duration;

use datacake_crdt::{HLCTimestamp, DATACAKE_EPOCH};
use rand::Rng;
use serde::{Deserialize, Serialize};
use serde_json::Value;

use crate::framework::*;

const DRIFT_MS: u64 = 4_100_000;

#[derive(Serialize, Deserialize, Clone, Debug)]
#[serde(tag = "ev")]
pub enum Step {
    /// set the wall clock (datacake ms); may stall or go backwards
    #[serde(rename = "wall")]
    Wall { t: u64 },
    #[serde(rename = "send")]
    Send,
    /// receive a remote stamp
    #[serde(rename = "recv")]
    Recv { t: u64, c: u16, node: u8 },
}

#[derive(Serialize, Deserialize, Clone, Debug)]
pub struct Scenario {
    pub node: u8,
    /// initial wall clock (datacake ms)
    pub start: u64,
    pub events: Vec<Step>,
}

pub struct C09;

fn q(t: u64) -> u64 {
    t / 4 * 4
}

impl Check for C09 {
    fn id(&self) -> &'static str {
        "C09"
    }
    fn title(&self) -> &'static str {
        "Hybrid clock stamps are unique, strictly increasing and respect causality"
    }
    fn engine(&self) -> &'static str {
        "E0: one real HLCTimestamp clock under an injected wall clock (advance, stall, backwards and forwards jumps) interleaved with send/recv"
    }
    fn rule(&self) -> &'static str {
        "Cases: 5-120 steps over {set wall clock (small advance / stall / backwards jump up to 3 h / forwards jump up to 3 h), send, recv(remote)} where remote stamps are drawn relative to the wall clock and to the clock itself: behind, equal tick, ahead within drift, at drift +-4 ms, beyond drift, own node id, counters at 0 / mid / 65534 / 65535. Oracle per step as stated in the property; a refused recv must have its cause (same node id, the remote stamp or the clock itself beyond the drift, an exhausted counter) - a remote stamp within the permitted drift has to be accepted. Non-trivial = at least one backwards or forwards jump or stall, one accepted recv and one send. Distinct = hash of the step-kind/outcome sequence."
    }
    fn assumptions(&self) -> Vec<String> {
        vec![
            "the injected wall clock is converted exactly as get_datacake_timestamp converts the real one (same epoch subtraction and 4 ms rounding)".into(),
            "wall clock readings before the datacake epoch (2023-01-01) are not generated: the conversion subtracts unchecked there, on real and injected clocks alike".into(),
        ]
    }
    fn components(&self) -> Vec<(&'static str, &'static str)> {
        vec![("datacake-crdt HLCTimestamp::now/send/recv", "real"), ("wall clock", "injected (hook H1)")]
    }
    fn budget(&self, tier: Tier) -> Budget {
        match tier {
            Tier::Quick => Budget { wall_secs: 40, max_cases: 3_000_000, checkpoint_every: 4096, workers: 16 },
            Tier::Thorough => Budget { wall_secs: 600, max_cases: 100_000_000, checkpoint_every: 4096, workers: 16 },
        }
    }
    fn generate(&self, seed: u64, idx: u64, _tier: Tier) -> Value {
        let mut rng = rng_from(case_seed(seed, idx));
        let node = rng.gen_range(0..=255u8);
        let start = rng.gen_range(5_000_000_000u64..90_000_000_000);
        let n = rng.gen_range(5..=120);
        let mut wall = start;
        // a model of where the clock roughly is, only to aim the remote stamps
        let mut approx = q(start);
        let mut events = Vec::new();
        for _ in 0..n {
            match rng.gen_range(0..10) {
                0..=2 => {
                    let t = match rng.gen_range(0..8) {
                        0 => wall,                                                        // stall
                        1 => wall.saturating_sub(rng.gen_range(1..10_800_000)).max(4_000_000_000), // backwards
                        2 => wall + rng.gen_range(3_600_000..10_800_000),                 // big forward jump
                        _ => wall + rng.gen_range(0..2_000),
                    };
                    wall = t;
                    events.push(Step::Wall { t });
                },
                3..=6 => {
                    approx = approx.max(q(wall));
                    events.push(Step::Send);
                },
                _ => {
                    let basis = if rng.gen_bool(0.5) { q(wall) } else { approx };
                    let t = match rng.gen_range(0..9) {
                        0 => basis.saturating_sub(rng.gen_range(0..7_200_000)),
                        1 => basis,
                        2 => q(wall) + rng.gen_range(0..DRIFT_MS),
                        3 => q(wall) + DRIFT_MS,
                        4 => q(wall) + DRIFT_MS + 4,
                        5 => q(wall) + DRIFT_MS - 4,
                        6 => q(wall) + DRIFT_MS + rng.gen_range(4..7_200_000),
                        7 => approx,
                        _ => basis + rng.gen_range(0..60_000),
                    };
                    let c = match rng.gen_range(0..6) {
                        0 => 65535,
                        1 => 65534,
                        2 => rng.gen_range(0..65535),
                        _ => rng.gen_range(0..4),
                    };
                    let rn = if rng.gen_bool(0.1) { node } else { rng.gen_range(0..=255u8) };
                    if q(t) <= q(wall) + DRIFT_MS {
                        approx = approx.max(q(t));
                    }
                    events.push(Step::Recv { t: q(t), c, node: rn });
                },
            }
        }
        serde_json::to_value(Scenario { node, start, events }).unwrap()
    }
    fn execute(&self, scenario: &Value) -> Outcome {
        let sc: Scenario = match serde_json::from_value(scenario.clone()) {
            Ok(s) => s,
            Err(e) => return Outcome::invalid(format!("bad scenario: {e}")),
        };
        let mut out = Outcome::default();
        let wall = Rc::new(Cell::new(sc.start));
        let w2 = wall.clone();
        datacake_crdt::verif::set_wall_clock(Some(Box::new(move |_n| DATACAKE_EPOCH + Duration::from_millis(w2.get()))));
        let mut clock = HLCTimestamp::now(0, sc.node);
        let mut trace = Fnv::new();
        let mut sig = Fnv::new();
        // greatest stamp issued or accepted so far
        let mut high: Option<HLCTimestamp> = None;
        let (mut jumps, mut accepted, mut sends) = (0u64, 0u64, 0u64);
        let mut last_wall = sc.start;
        for (i, ev) in sc.events.iter().enumerate() {
            match ev {
                Step::Wall { t } => {
                    if *t < last_wall {
                        out.fault("wall_clock_backwards_jump");
                        jumps += 1;
                    } else if *t == last_wall {
                        out.fault("wall_clock_stall");
                        jumps += 1;
                    } else if *t - last_wall >= 3_600_000 {
                        out.fault("wall_clock_forward_jump");
                        jumps += 1;
                    }
                    last_wall = *t;
                    wall.set(*t);
                    sig.u64(1);
                },
                Step::Send => {
                    let before = clock;
                    let r = clock.send();
                    match r {
                        Ok(ts) => {
                            sends += 1;
                            sig.u64(2);
                            trace.u64(ts.as_u64());
                            if let Some(h) = high {
                                if ts <= h {
                                    out.violate("C09/send-not-greater-than-earlier-stamp", format!("step {i}: send returned {ts} but {h} was issued or accepted before"));
                                }
                            }
                            if ts <= before && before.as_u64() != HLCTimestamp::now(0, sc.node).as_u64() {
                                // (the initial clock value itself was never issued)
                            }
                            if ts.node() != sc.node {
                                out.violate("C09/send-wrong-node-id", format!("step {i}: send returned node {} on clock of node {}", ts.node(), sc.node));
                            }
                            let ahead = ts.datacake_timestamp().as_millis() as u64;
                            if ahead > q(wall.get()) + DRIFT_MS {
                                out.violate("C09/send-beyond-permitted-drift", format!("step {i}: send returned {ts}, {} ms ahead of the wall clock", ahead - q(wall.get())));
                            }
                            if clock != ts {
                                out.violate("C09/clock-differs-from-issued-stamp", format!("step {i}: clock is {clock} after issuing {ts}"));
                            }
                            high = Some(high.map_or(ts, |h| h.max(ts)));
                        },
                        Err(e) => {
                            sig.u64(3);
                            out.probe(&format!("send_err_{}", err_name(&e)));
                            if clock.as_u64() != before.as_u64() {
                                out.violate("C09/failed-send-changed-clock", format!("step {i}: send failed ({e}) but the clock moved {before} -> {clock}"));
                            }
                        },
                    }
                },
                Step::Recv { t, c, node } => {
                    let msg = HLCTimestamp::new(Duration::from_millis(*t), *c, *node);
                    let before = clock;
                    let r = clock.recv(&msg);
                    match r {
                        Ok(_) => {
                            accepted += 1;
                            sig.u64(4);
                            trace.u64(clock.as_u64());
                            if *node == sc.node {
                                out.violate("C09/accepted-own-node-id", format!("step {i}: recv accepted a stamp carrying the clock's own node id"));
                            }
                            if *t > q(wall.get()) + DRIFT_MS {
                                out.violate("C09/accepted-remote-beyond-drift", format!("step {i}: recv accepted {msg}, {} ms ahead of the wall clock", t - q(wall.get())));
                            }
                            if clock <= msg {
                                out.violate("C09/clock-not-greater-than-accepted-remote", format!("step {i}: after accepting {msg} the clock is {clock}"));
                            }
                            if clock < before {
                                out.violate("C09/clock-went-backwards", format!("step {i}: recv moved the clock {before} -> {clock}"));
                            }
                            if clock.node() != sc.node {
                                out.violate("C09/clock-node-id-changed", format!("step {i}: clock node id became {}", clock.node()));
                            }
                            high = Some(high.map_or(msg, |h| h.max(msg)));
                            // the clock value after recv is a lower bound for future sends as well
                            high = Some(high.unwrap().max(clock_floor(clock)));
                        },
                        Err(e) => {
                            sig.u64(5);
                            out.probe(&format!("recv_err_{}", err_name(&e)));
                            if clock.as_u64() != before.as_u64() {
                                out.violate("C09/failed-recv-changed-clock", format!("step {i}: recv of {msg} failed ({e}) but the clock moved {before} -> {clock}"));
                            }
                            // a refusal needs its cause: the same node id, something (the remote stamp or
                            // the clock itself) beyond the permitted drift ahead of the wall clock, or a
                            // counter that cannot be incremented
                            let before_ms = before.datacake_timestamp().as_millis() as u64;
                            let caused = match &e {
                                datacake_crdt::TimestampError::DuplicatedNode(_) => *node == sc.node,
                                datacake_crdt::TimestampError::ClockDrift => before_ms.max(*t) > q(wall.get()) + DRIFT_MS,
                                datacake_crdt::TimestampError::Overflow => before.counter().max(*c) == u16::MAX,
                            };
                            if !caused {
                                out.violate(
                                    "C09/remote-stamp-refused-without-cause",
                                    format!("step {i}: recv of {msg} failed ({e}) with the clock at {before} and the wall clock at {} ms: nothing is beyond the permitted drift, the node ids differ / no counter is exhausted", q(wall.get())),
                                );
                            }
                        },
                    }
                },
            }
        }
        datacake_crdt::verif::set_wall_clock(None);
        out.nontrivial = jumps > 0 && accepted > 0 && sends > 0;
        out.trace_hash = trace.finish();
        out.signature = sig.finish();
        out.state_fp = clock.as_u64();
        out.sim_ms = sc.events.iter().filter_map(|e| if let Step::Wall { t } = e { Some(*t) } else { None }).max().unwrap_or(sc.start).saturating_sub(sc.start);
        out
    }
}

/// A send after an accepted recv must exceed the remote stamp; it need not exceed the clock's own
/// post-recv value by the statement (only "greater than that timestamp"), so the floor is the
/// smallest stamp: we return the minimum representable to leave `high` unchanged.
fn clock_floor(_c: HLCTimestamp) -> HLCTimestamp {
    HLCTimestamp::from_u64(0)
}

fn err_name(e: &datacake_crdt::TimestampError) -> &'static str {
    match e {
        datacake_crdt::TimestampError::DuplicatedNode(_) => "same_node",
        datacake_crdt::TimestampError::ClockDrift => "drift",
        datacake_crdt::TimestampError::Overflow => "overflow",
    }
}
