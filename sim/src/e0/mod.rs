//! E0 — replica-network engine (no tokio): real `OrSWotSet` / `HLCTimestamp` values driven by a
//! discrete-event loop with a seeded bag network and an injected wall clock.

pub mod c03;
pub mod c04;
pub mod c05;
pub mod c08;
pub mod c09;

use std::time::Duration;

use datacake_crdt::{HLCTimestamp, Key, OrSWotSet};
use serde::{Deserialize, Serialize};

pub const HOUR_MS: u64 = 3_600_000;

/// One replicated operation with an explicit timestamp.
#[derive(Clone, Copy, Debug, Serialize, Deserialize, PartialEq, Eq)]
pub struct Op {
    pub key: Key,
    /// datacake time in ms (multiple of 4)
    pub t: u64,
    pub c: u16,
    pub node: u8,
    pub del: bool,
}

impl Op {
    pub fn ts(&self) -> HLCTimestamp {
        HLCTimestamp::new(Duration::from_millis(self.t), self.c, self.node)
    }
    /// The documented order: time at 4 ms resolution, then counter, then node.
    pub fn order_key(&self) -> (u64, u16, u8) {
        (self.t / 4, self.c, self.node)
    }
}

pub type Listing = (Vec<(Key, HLCTimestamp)>, Vec<(Key, HLCTimestamp)>);

/// (live, tombstones) of a set, observed through the public API only (diff against empty).
pub fn listing<const N: usize>(s: &OrSWotSet<N>) -> Listing {
    let (mut live, mut dead) = OrSWotSet::<N>::default().diff(s);
    live.sort();
    dead.sort();
    (live, dead)
}

#[derive(Clone, Copy, Debug, PartialEq, Eq)]
pub enum KeyView {
    None,
    Live(HLCTimestamp),
    Dead(HLCTimestamp),
    /// present in both maps (never expected)
    Both(HLCTimestamp, HLCTimestamp),
}

pub fn key_view<const N: usize>(s: &OrSWotSet<N>, key: Key) -> KeyView {
    let (live, dead) = listing(s);
    let l = live.iter().find(|(k, _)| *k == key).map(|x| x.1);
    let d = dead.iter().find(|(k, _)| *k == key).map(|x| x.1);
    match (l, d) {
        (None, None) => KeyView::None,
        (Some(t), None) => KeyView::Live(t),
        (None, Some(t)) => KeyView::Dead(t),
        (Some(a), Some(b)) => KeyView::Both(a, b),
    }
}

pub fn apply<const N: usize>(s: &mut OrSWotSet<N>, source: usize, op: &Op) -> bool {
    if op.del {
        s.delete_with_source(source, op.key, op.ts())
    } else {
        s.insert_with_source(source, op.key, op.ts())
    }
}

pub fn fmt_ts(t: HLCTimestamp) -> String {
    format!("{}ms/c{}/n{}", t.datacake_timestamp().as_millis(), t.counter(), t.node())
}

pub fn fmt_list(l: &[(Key, HLCTimestamp)]) -> String {
    let v: Vec<String> = l.iter().map(|(k, t)| format!("{k}@{}", fmt_ts(*t))).collect();
    format!("[{}]", v.join(", "))
}

/// Last-writer-wins truth over a set of ops: key -> winning op.
pub fn lww_truth(ops: &[Op]) -> std::collections::BTreeMap<Key, Op> {
    let mut m: std::collections::BTreeMap<Key, Op> = Default::default();
    for op in ops {
        match m.get(&op.key) {
            Some(cur) if cur.order_key() >= op.order_key() => {},
            _ => {
                m.insert(op.key, *op);
            },
        }
    }
    m
}

pub fn lww_live(ops: &[Op]) -> Vec<(Key, HLCTimestamp)> {
    lww_truth(ops)
        .values()
        .filter(|o| !o.del)
        .map(|o| (o.key, o.ts()))
        .collect()
}

/// Generates `n` ops with pairwise distinct timestamps inside `[base, base+span_ms)`,
/// deliberately clustering some on the same 4 ms tick (different counters) and the same
/// (time, counter) with different nodes so every level of the comparison is exercised.
pub fn gen_ops(
    rng: &mut impl rand::Rng,
    n: usize,
    keys: u64,
    origins: u8,
    base: u64,
    span_ms: u64,
    del_p: f64,
) -> Vec<Op> {
    let mut ops: Vec<Op> = Vec::new();
    let mut guard = 0;
    while ops.len() < n && guard < 10_000 {
        guard += 1;
        let (t, c) = if !ops.is_empty() && rng.gen_bool(0.35) {
            // cluster on an existing tick
            let o = ops[rng.gen_range(0..ops.len())];
            if rng.gen_bool(0.5) {
                (o.t, o.c)
            } else {
                (o.t, rng.gen_range(0..4u16))
            }
        } else {
            ((base + rng.gen_range(0..span_ms.max(4))) / 4 * 4, if rng.gen_bool(0.8) { 0 } else { rng.gen_range(0..4u16) })
        };
        let node = rng.gen_range(0..origins);
        if ops.iter().any(|o| o.t == t && o.c == c && o.node == node) {
            continue;
        }
        ops.push(Op {
            key: rng.gen_range(0..keys),
            t,
            c,
            node,
            del: rng.gen_bool(del_p),
        });
    }
    ops
}
