//! C04 — per key the greatest timestamp wins, whatever order operations arrive in.

use datacake_crdt::OrSWotSet;
use rand::Rng;
use serde::{Deserialize, Serialize};
use serde_json::Value;

use super::*;
use crate::framework::*;

#[derive(Serialize, Deserialize, Clone, Debug)]
pub struct Delivery {
    /// index into ops
    pub op: usize,
    pub source: usize,
    /// arrival time in ms (only used for ordering / precondition accounting)
    pub at: u64,
}

#[derive(Serialize, Deserialize, Clone, Debug)]
pub struct Scenario {
    pub sources: usize,
    pub ops: Vec<Op>,
    pub events: Vec<Delivery>,
}

pub struct C04;

fn run<const N: usize>(sc: &Scenario, out: &mut Outcome) {
    let mut set = OrSWotSet::<N>::default();
    let mut trace = Fnv::new();
    let mut sig = Fnv::new();
    // precondition accounting: newest stamp seen per origin over all sources
    let mut seen_max: std::collections::BTreeMap<u8, u64> = Default::default();
    let mut delivered = vec![0u32; sc.ops.len()];
    let mut reordered = false;
    let mut last_key: Option<(u64, u16, u8)> = None;
    for d in &sc.events {
        let Some(op) = sc.ops.get(d.op) else {
            *out = Outcome::invalid("delivery refers to a missing op");
            return;
        };
        if d.source >= N {
            *out = Outcome::invalid("source out of range");
            return;
        }
        if let Some(m) = seen_max.get(&op.node) {
            if op.t + HOUR_MS <= *m {
                *out = Outcome::invalid(format!(
                    "precondition: op at {}ms from origin {} arrives after the replica saw {}ms from it (older than the forgiveness window)",
                    op.t, op.node, m
                ));
                return;
            }
        }
        let e = seen_max.entry(op.node).or_insert(0);
        *e = (*e).max(op.t);
        if let Some(lk) = last_key {
            if op.order_key() < lk {
                reordered = true;
            }
        }
        last_key = Some(op.order_key());
        if delivered[d.op] > 0 {
            out.fault("duplicate_delivery");
        }
        delivered[d.op] += 1;

        let before = key_view(&set, op.key);
        let will = set.will_apply(op.key, op.ts());
        let ret = apply(&mut set, d.source, op);
        let after = key_view(&set, op.key);
        let changed = before != after;
        trace.u64(d.op as u64).u64(d.source as u64).u64(will as u64).u64(ret as u64).u64(changed as u64);
        sig.u64(op.key).u64(op.del as u64).u64(d.source as u64).u64(op.node as u64).u64(changed as u64);
        if matches!(after, KeyView::Both(..)) {
            out.violate(
                "C04/key-both-live-and-tombstone",
                format!("after delivering op#{} key {} is both live and tombstoned: {:?}", d.op, op.key, after),
            );
        }
        if will != changed {
            out.violate(
                if will { "C04/will-apply-true-but-view-unchanged" } else { "C04/will-apply-false-but-view-changed" },
                format!(
                    "op#{} {:?} via source {}: will_apply={} but view {:?} -> {:?}",
                    d.op, op, d.source, will, before, after
                ),
            );
        }
        if ret != changed {
            out.violate(
                if ret { "C04/returned-true-but-view-unchanged" } else { "C04/returned-false-but-view-changed" },
                format!(
                    "op#{} {:?} via source {}: returned {} but view {:?} -> {:?}",
                    d.op, op, d.source, ret, before, after
                ),
            );
        }
        if !changed {
            out.probe("noop_delivery");
        }
    }
    if reordered {
        out.fault("reordered_delivery");
    }
    // final LWW over the ops that were delivered at least once
    let delivered_ops: Vec<Op> = sc
        .ops
        .iter()
        .zip(delivered.iter())
        .filter(|(_, n)| **n > 0)
        .map(|(o, _)| *o)
        .collect();
    let want = lww_live(&delivered_ops);
    let (live, dead) = listing(&set);
    if live != want {
        out.violate(
            "C04/final-live-set-is-not-last-writer-wins",
            format!("live {} but the greatest-timestamp operations give {}", fmt_list(&live), fmt_list(&want)),
        );
    }
    for (k, _) in &live {
        if set.get(k).is_none() {
            out.violate("C04/get-disagrees-with-listing", format!("key {k} listed live but get() is None"));
        }
    }
    // timestamp order = (time/4ms, counter, node)
    for a in &sc.ops {
        for b in &sc.ops {
            let want = a.order_key().cmp(&b.order_key());
            let got = a.ts().cmp(&b.ts());
            if want != got {
                out.violate(
                    "C04/timestamp-order",
                    format!("{:?} vs {:?}: tuple order {:?}, HLCTimestamp order {:?}", a, b, want, got),
                );
            }
        }
    }
    let origins: std::collections::BTreeSet<u8> = sc.ops.iter().map(|o| o.node).collect();
    let keys: std::collections::BTreeSet<u64> = sc.ops.iter().map(|o| o.key).collect();
    let contended = keys.iter().any(|k| sc.ops.iter().filter(|o| o.key == *k).count() >= 2);
    out.nontrivial = contended && (reordered || origins.len() >= 2);
    trace.u64(live.len() as u64).u64(dead.len() as u64);
    for (k, t) in live.iter().chain(dead.iter()) {
        trace.u64(*k).u64(t.as_u64());
    }
    out.trace_hash = trace.finish();
    out.signature = sig.finish();
    let mut fp = Fnv::new();
    for (k, t) in live.iter() {
        fp.u64(*k).u64(t.as_u64());
    }
    fp.u64(0xdead);
    for (k, t) in dead.iter() {
        fp.u64(*k).u64(t.as_u64());
    }
    out.state_fp = fp.finish();
    out.sim_ms = sc.events.iter().map(|e| e.at).max().unwrap_or(0).saturating_sub(sc.events.iter().map(|e| e.at).min().unwrap_or(0));
}

impl Check for C04 {
    fn id(&self) -> &'static str {
        "C04"
    }
    fn title(&self) -> &'static str {
        "Per key the greatest timestamp wins, whatever order operations arrive in"
    }
    fn engine(&self) -> &'static str {
        "E0 replica-network engine: one real OrSWotSet<1|2> replica fed by a seeded reordering/duplicating two-channel network"
    }
    fn rule(&self) -> &'static str {
        "Cases: 1-12 ops with pairwise distinct timestamps (clustered on equal 4 ms ticks / equal counters to exercise every level of the order) from 1-3 origins on 1-4 keys; each op gets 1-3 arrivals, each arrival a seeded delay in [0, 59 min) and a seeded source, and arrivals are processed in arrival-time order (so no arrival is older than the forgiveness window relative to what was already seen from its origin; re-asserted per run). Two arms: all timestamps inside one hour / multi-hour histories. Non-trivial = some key has >= 2 operations AND (arrival order differs from timestamp order OR >= 2 origins). Distinct = distinct hash of the ordered (key, kind, source, origin, view-changed) sequence."
    }
    fn assumptions(&self) -> Vec<String> {
        vec![
            "timestamps are pairwise distinct (statement precondition); exact insert/delete ties are not generated".into(),
            "the replica's view of a key is observed through the public API only: get() and diff-against-empty listing".into(),
            "sampled, not enumerated: a clean run is evidence, not proof".into(),
        ]
    }
    fn components(&self) -> Vec<(&'static str, &'static str)> {
        vec![
            ("datacake-crdt OrSWotSet / HLCTimestamp", "real"),
            ("network between origin and replica", "simulated (seeded delays, duplication, reordering, two sources)"),
            ("storage, RPC, actors", "not involved"),
        ]
    }
    fn budget(&self, tier: Tier) -> Budget {
        match tier {
            Tier::Quick => Budget { wall_secs: 40, max_cases: 6_000_000, checkpoint_every: 4096, workers: 16 },
            Tier::Thorough => Budget { wall_secs: 600, max_cases: 300_000_000, checkpoint_every: 4096, workers: 16 },
        }
    }
    fn generate(&self, seed: u64, idx: u64, _tier: Tier) -> Value {
        let mut rng = rng_from(case_seed(seed, idx));
        let sources = if rng.gen_bool(0.7) { 2 } else { 1 };
        let origins = rng.gen_range(1..=3u8);
        let nops = rng.gen_range(1..=12usize);
        let keys = rng.gen_range(1..=4u64);
        let base = match rng.gen_range(0..20) { 0 => rng.gen_range(1_000..50 * 60_000), 1..=2 => rng.gen_range(2 * HOUR_MS..4 * HOUR_MS), _ => rng.gen_range(1_000_000_000u64..60_000_000_000) };
        let span = if rng.gen_bool(0.6) { rng.gen_range(4..HOUR_MS - 8) } else { rng.gen_range(HOUR_MS..6 * HOUR_MS) };
        let ops = gen_ops(&mut rng, nops, keys, origins, base / 4 * 4, span, 0.4);
        let mut events = Vec::new();
        let max_delay = 59 * 60_000;
        for (i, op) in ops.iter().enumerate() {
            let copies = if rng.gen_bool(0.25) { rng.gen_range(2..=3) } else { 1 };
            for _ in 0..copies {
                let delay = if rng.gen_bool(0.5) { rng.gen_range(0..max_delay) } else { rng.gen_range(0..5_000) };
                events.push(Delivery { op: i, source: rng.gen_range(0..sources), at: op.t + delay });
            }
        }
        events.sort_by_key(|e| (e.at, e.op, e.source));
        serde_json::to_value(Scenario { sources, ops, events }).unwrap()
    }
    fn execute(&self, scenario: &Value) -> Outcome {
        let sc: Scenario = match serde_json::from_value(scenario.clone()) {
            Ok(s) => s,
            Err(e) => return Outcome::invalid(format!("bad scenario: {e}")),
        };
        let mut out = Outcome::default();
        match sc.sources {
            1 => run::<1>(&sc, &mut out),
            2 => run::<2>(&sc, &mut out),
            _ => return Outcome::invalid("sources must be 1 or 2"),
        }
        out
    }
    fn shrink(&self, sc: &Value) -> Vec<Value> {
        let mut c = Vec::new();
        // drop ops no delivery refers to (re-indexing the deliveries)
        if let Ok(s) = serde_json::from_value::<Scenario>(sc.clone()) {
            let used: std::collections::BTreeSet<usize> = s.events.iter().map(|e| e.op).collect();
            if used.len() < s.ops.len() {
                let map: std::collections::BTreeMap<usize, usize> = used.iter().enumerate().map(|(n, o)| (*o, n)).collect();
                let ops: Vec<Op> = used.iter().filter_map(|i| s.ops.get(*i).copied()).collect();
                let events: Vec<Delivery> = s.events.iter().filter(|e| map.contains_key(&e.op)).map(|e| Delivery { op: map[&e.op], source: e.source, at: e.at }).collect();
                c.push(serde_json::to_value(Scenario { sources: s.sources, ops, events }).unwrap());
            }
        }
        // only deliveries are removable; ops are compacted above
        c.extend(generic_shrink(sc).into_iter().filter(|v| v.get("ops") == sc.get("ops")));
        // simplify: single source
        c.extend(shrink_set(sc, "sources", &[serde_json::json!(1)]).into_iter().map(|mut v| {
            if let Some(ev) = v.get_mut("events").and_then(|e| e.as_array_mut()) {
                for e in ev {
                    e["source"] = serde_json::json!(0);
                }
            }
            v
        }));
        c
    }
}
