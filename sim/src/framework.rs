//! Check framework: scenarios, outcomes, worker processes, search, minimisation, replay, evidence.
//!
//! One *scenario* (a JSON value) is one exactly repeatable execution. `generate` is a pure
//! function of `(seed, index, tier)`; `execute` is a pure function of the scenario and the code.

use std::cell::RefCell;
use std::collections::{BTreeMap, BTreeSet, HashSet};
use std::io::{Read, Write};
use std::path::{Path, PathBuf};
use std::process::{Command, Stdio};
use std::time::{Duration, Instant};

use serde::{Deserialize, Serialize};
use serde_json::{json, Value};

pub const DEFAULT_SEED: u64 = 20_260_924;

#[derive(Clone, Copy, Debug, PartialEq, Eq)]
pub enum Tier {
    Quick,
    Thorough,
}

impl Tier {
    pub fn parse(s: &str) -> Tier {
        match s {
            "thorough" => Tier::Thorough,
            _ => Tier::Quick,
        }
    }
    pub fn name(self) -> &'static str {
        match self {
            Tier::Quick => "quick",
            Tier::Thorough => "thorough",
        }
    }
}

#[derive(Clone, Debug, Serialize, Deserialize, PartialEq, Eq)]
pub struct Violation {
    /// Stable identifier of the violated oracle + the specific failing shape.
    pub class: String,
    pub detail: String,
}

#[derive(Clone, Debug, Default, Serialize, Deserialize)]
pub struct Outcome {
    pub violations: Vec<Violation>,
    /// Hash of the full event trace of the run (used to prove replay determinism).
    pub trace_hash: u64,
    /// Schedule signature: hash of the ordered interesting events (distinctness measure).
    pub signature: u64,
    /// Whether the run is non-trivial by the check's stated rule.
    pub nontrivial: bool,
    /// Fault kinds that actually fired, with counts.
    pub faults: BTreeMap<String, u64>,
    /// "this branch was reached" probes.
    pub probes: BTreeMap<String, u64>,
    /// Simulated milliseconds covered by this run.
    pub sim_ms: u64,
    /// Fingerprint of the final state (distinct-states measure).
    pub state_fp: u64,
    /// Set when the scenario is outside the property's precondition or otherwise not executable:
    /// a harness error during search (exit 2), "not failing" during minimisation.
    pub invalid: Option<String>,
    /// Panics observed that are not attributable to repository code.
    pub anomalies: Vec<String>,
}

impl Outcome {
    pub fn violate(&mut self, class: impl Into<String>, detail: impl Into<String>) {
        let class = class.into();
        if !self.violations.iter().any(|v| v.class == class) {
            self.violations.push(Violation {
                class,
                detail: detail.into(),
            });
        }
    }
    pub fn fault(&mut self, kind: &str) {
        *self.faults.entry(kind.to_string()).or_insert(0) += 1;
    }
    pub fn fault_n(&mut self, kind: &str, n: u64) {
        if n > 0 {
            *self.faults.entry(kind.to_string()).or_insert(0) += n;
        }
    }
    pub fn probe(&mut self, name: &str) {
        *self.probes.entry(name.to_string()).or_insert(0) += 1;
    }
    pub fn probe_n(&mut self, name: &str, n: u64) {
        if n > 0 {
            *self.probes.entry(name.to_string()).or_insert(0) += n;
        }
    }
    pub fn invalid(reason: impl Into<String>) -> Outcome {
        Outcome {
            invalid: Some(reason.into()),
            ..Default::default()
        }
    }
}

#[derive(Clone, Copy, Debug)]
pub struct Budget {
    /// Wall-clock cap for the search phase of the whole check.
    pub wall_secs: u64,
    /// Cap on the number of cases over all workers.
    pub max_cases: u64,
    /// How often (in cases) a worker records its progress for crash attribution.
    pub checkpoint_every: u64,
    /// Number of worker processes.
    pub workers: usize,
}

pub trait Check: Sync {
    fn id(&self) -> &'static str;
    fn title(&self) -> &'static str;
    /// "exploration" or "fault_enumeration".
    fn level(&self) -> &'static str {
        "exploration"
    }
    fn engine(&self) -> &'static str;
    /// How cases are generated and what makes one non-trivial / distinct.
    fn rule(&self) -> &'static str;
    fn assumptions(&self) -> Vec<String>;
    /// component -> "real" / "stub" / "simulated" description.
    fn components(&self) -> Vec<(&'static str, &'static str)>;
    fn budget(&self, tier: Tier) -> Budget;
    /// `Some(n)` when the case space of this tier is a finite enumeration of n cases
    /// (then case `idx` in `0..n` is the idx-th element and the run is exhaustive if all ran).
    fn total_cases(&self, _tier: Tier) -> Option<u64> {
        None
    }
    fn generate(&self, seed: u64, idx: u64, tier: Tier) -> Value;
    fn execute(&self, scenario: &Value) -> Outcome;
    /// Candidate simplifications of a failing scenario, most aggressive first.
    fn shrink(&self, scenario: &Value) -> Vec<Value> {
        generic_shrink(scenario)
    }
    /// Whether this scenario must run in a process of its own. Cluster simulations that crash
    /// hosts are history-dependent inside one process: tokio hands out task ids from a
    /// process-wide counter and drops the tasks of a killed runtime in an order derived from
    /// them, which changes the order of the FIN segments the dying host emits. A fresh process
    /// per case makes one scenario one execution, whatever ran before.
    fn isolate(&self, _scenario: &Value) -> bool {
        false
    }
}

/// Executes one case the way searches, re-checks and replays all do.
pub fn run_case(check: &dyn Check, scenario: &Value) -> Outcome {
    if check.isolate(scenario) {
        match exec_isolated(check.id(), scenario) {
            Ok(o) => o,
            Err(e) => {
                let mut o = Outcome::default();
                o.anomalies.push(format!("isolated execution failed: {e}"));
                o
            },
        }
    } else {
        execute_guarded(check, scenario)
    }
}

// ------------------------------------------------------------------------------------------
// hashing / rng helpers

#[derive(Clone)]
pub struct Fnv(pub u64);
impl Default for Fnv {
    fn default() -> Self {
        Fnv(0xcbf29ce484222325)
    }
}
impl Fnv {
    pub fn new() -> Self {
        Self::default()
    }
    pub fn bytes(&mut self, b: &[u8]) -> &mut Self {
        for x in b {
            self.0 ^= *x as u64;
            self.0 = self.0.wrapping_mul(0x100000001b3);
        }
        self
    }
    pub fn u64(&mut self, v: u64) -> &mut Self {
        self.bytes(&v.to_le_bytes())
    }
    pub fn str(&mut self, s: &str) -> &mut Self {
        self.bytes(s.as_bytes());
        self.bytes(&[0xff])
    }
    pub fn finish(&self) -> u64 {
        // final avalanche so near-equal inputs differ in all bits
        mix(self.0, 0x9E37_79B9_7F4A_7C15)
    }
}

pub fn mix(a: u64, b: u64) -> u64 {
    let mut z = a ^ b.wrapping_mul(0x9E37_79B9_7F4A_7C15).rotate_left(17);
    z = z.wrapping_add(0x9E37_79B9_7F4A_7C15);
    z = (z ^ (z >> 30)).wrapping_mul(0xBF58_476D_1CE4_E5B9);
    z = (z ^ (z >> 27)).wrapping_mul(0x94D0_49BB_1331_11EB);
    z ^ (z >> 31)
}

pub fn rng_from(seed: u64) -> rand::rngs::SmallRng {
    use rand::SeedableRng;
    rand::rngs::SmallRng::seed_from_u64(seed)
}

/// Seed of case `idx` for a given run seed.
pub fn case_seed(seed: u64, idx: u64) -> u64 {
    mix(mix(seed, 0xC0FFEE), idx)
}

// ------------------------------------------------------------------------------------------
// panic capture

thread_local! {
    static PANICS: RefCell<Vec<(String, String)>> = RefCell::new(Vec::new());
}

pub fn install_panic_hook() {
    std::panic::set_hook(Box::new(|info| {
        let loc = info
            .location()
            .map(|l| format!("{}:{}", l.file(), l.line()))
            .unwrap_or_else(|| "?".to_string());
        let msg = if let Some(s) = info.payload().downcast_ref::<&str>() {
            s.to_string()
        } else if let Some(s) = info.payload().downcast_ref::<String>() {
            s.clone()
        } else {
            "<non-string panic>".to_string()
        };
        if std::env::var_os("DCSIM_PANIC_PRINT").is_some() {
            eprintln!("PANIC at {loc}: {msg}");
        }
        PANICS.with(|p| p.borrow_mut().push((loc, msg)));
    }));
}

pub fn take_panics() -> Vec<(String, String)> {
    PANICS.with(|p| std::mem::take(&mut *p.borrow_mut()))
}

fn short_loc(loc: &str) -> String {
    loc.trim_start_matches("/repo/").to_string()
}

/// Executes a scenario, converting panics into violations (repository code) or anomalies (other).
pub fn execute_guarded(check: &dyn Check, scenario: &Value) -> Outcome {
    let _ = take_panics();
    reset_hooks();
    let res = std::panic::catch_unwind(std::panic::AssertUnwindSafe(|| check.execute(scenario)));
    reset_hooks();
    let panics = take_panics();
    let mut out = match res {
        Ok(o) => o,
        Err(_) => Outcome::default(),
    };
    for (loc, msg) in panics {
        if loc.starts_with("/repo/") {
            let msg1: String = msg.chars().take(160).collect();
            out.violate(
                format!("{}/panic@{}", check.id(), short_loc(&loc)),
                format!("repository code panicked at {loc}: {msg1}"),
            );
        } else if loc.contains("/verif/sim/") || loc.starts_with("src/") {
            out.anomalies.push(format!("harness panic at {loc}: {msg}"));
        } else {
            // a dependency (tokio, hyper, turmoil...) panicked; usually a consequence of one of
            // the above, reported on its own only if nothing else explains it.
            out.anomalies.push(format!("dependency panic at {loc}: {msg}"));
        }
    }
    out
}

/// Clears every thread-local hook so a run can never leak into the next one.
pub fn reset_hooks() {
    datacake_crdt::verif::set_wall_clock(None);
    datacake_crdt::verif::seed_rng(None);
    datacake_crdt::verif::set_jitter(None);
    let _ = datacake_crdt::verif::take_probes();
}

// ------------------------------------------------------------------------------------------
// generic shrinking over JSON scenarios

/// Arrays under these keys are treated as removable event lists (ddmin); numbers under
/// "shrink_to_zero" style keys are handled by the checks themselves.
const LIST_KEYS: &[&str] = &["events", "ops", "faults", "steps", "history", "calls"];

pub fn generic_shrink(sc: &Value) -> Vec<Value> {
    let mut out = Vec::new();
    if let Some(obj) = sc.as_object() {
        for key in LIST_KEYS {
            if let Some(Value::Array(items)) = obj.get(*key) {
                let n = items.len();
                if n == 0 {
                    continue;
                }
                let mut chunk = n;
                while chunk >= 1 {
                    let mut start = 0;
                    while start < n {
                        let end = (start + chunk).min(n);
                        if !(start == 0 && end == n && n == 1 && false) {
                            let mut v = items.clone();
                            v.drain(start..end);
                            let mut o = obj.clone();
                            o.insert((*key).to_string(), Value::Array(v));
                            out.push(Value::Object(o));
                        }
                        start += chunk;
                    }
                    if chunk == 1 {
                        break;
                    }
                    chunk = (chunk + 1) / 2;
                    if chunk == n {
                        chunk -= 1;
                    }
                }
            }
        }
    }
    out
}

/// Helper for checks: candidates that replace `sc[key]` by each of `values`.
pub fn shrink_set(sc: &Value, key: &str, values: &[Value]) -> Vec<Value> {
    let mut out = Vec::new();
    if let Some(obj) = sc.as_object() {
        for v in values {
            if obj.get(key) != Some(v) {
                let mut o = obj.clone();
                o.insert(key.to_string(), v.clone());
                out.push(Value::Object(o));
            }
        }
    }
    out
}

// ------------------------------------------------------------------------------------------
// worker protocol

#[derive(Serialize, Deserialize, Default)]
pub struct WorkerReport {
    pub evaluations: u64,
    pub nontrivial: u64,
    pub sim_ms: u64,
    pub faults: BTreeMap<String, u64>,
    pub probes: BTreeMap<String, u64>,
    /// first failing case per violation class
    pub violations: Vec<(Violation, u64, Value)>,
    pub invalid: Vec<(u64, String)>,
    pub anomalies: Vec<(u64, String)>,
    pub samples: Vec<Value>,
    pub determinism_rechecks: u64,
    pub determinism_mismatches: Vec<u64>,
    pub last_idx: u64,
    pub complete: bool,
    pub sigs_capped: bool,
}

const SIG_CAP: usize = 3_000_000;

pub struct WorkerArgs {
    pub tier: Tier,
    pub seed: u64,
    pub worker: u64,
    pub workers: u64,
    pub deadline_secs: u64,
    pub max_cases: u64,
    pub checkpoint_every: u64,
    pub dir: PathBuf,
    /// first case index of this worker (worker, or where a crashed predecessor stopped)
    pub start: u64,
    /// incarnation number of this worker slot (a slot is respawned after a crash)
    pub part: u32,
}

pub fn run_worker(check: &dyn Check, a: &WorkerArgs) -> i32 {
    install_panic_hook();
    let start = Instant::now();
    let deadline = Duration::from_secs(a.deadline_secs);
    let total = check.total_cases(a.tier);
    let limit = match total {
        Some(t) => t.min(a.max_cases),
        None => a.max_cases,
    };
    let mut rep = WorkerReport::default();
    let mut sigs: HashSet<u64> = HashSet::new();
    let mut fps: HashSet<u64> = HashSet::new();
    let ckpt = a.dir.join(format!("w{}.ckpt", a.worker));
    let mut idx = a.start;
    let mut n = 0u64;
    let mut complete = true;
    let tag = format!("w{}.p{}", a.worker, a.part);
    let mut last_flush = Instant::now();
    while idx < limit {
        // partial results survive a crash of this process
        if last_flush.elapsed() > Duration::from_secs(2) {
            last_flush = Instant::now();
            let _ = std::fs::write(a.dir.join(format!("{tag}.json")), serde_json::to_vec(&rep).unwrap());
        }
        if n % 16 == 0 && start.elapsed() > deadline {
            complete = false;
            break;
        }
        if a.checkpoint_every > 0 && n % a.checkpoint_every == 0 {
            let _ = std::fs::write(&ckpt, idx.to_string());
        }
        if let Ok(v) = std::env::var("DCSIM_TEST_ABORT_AT") {
            // self-test of the crash supervision only
            if v.parse::<u64>().ok() == Some(idx) {
                std::process::abort();
            }
        }
        let sc = check.generate(a.seed, idx, a.tier);
        let out = run_case(check, &sc);
        rep.evaluations += 1;
        rep.sim_ms += out.sim_ms;
        for (k, v) in &out.faults {
            *rep.faults.entry(k.clone()).or_insert(0) += v;
        }
        for (k, v) in &out.probes {
            *rep.probes.entry(k.clone()).or_insert(0) += v;
        }
        if let Some(r) = &out.invalid {
            if rep.invalid.len() < 5 {
                rep.invalid.push((idx, r.clone()));
            }
        }
        for an in &out.anomalies {
            if rep.anomalies.len() < 5 {
                rep.anomalies.push((idx, an.clone()));
            }
        }
        if out.nontrivial && out.invalid.is_none() {
            rep.nontrivial += 1;
            if sigs.len() < SIG_CAP {
                sigs.insert(out.signature);
            } else {
                rep.sigs_capped = true;
            }
        }
        if fps.len() < SIG_CAP {
            fps.insert(out.state_fp);
        }
        for v in &out.violations {
            if !rep.violations.iter().any(|(x, _, _)| x.class == v.class) && rep.violations.len() < 12 {
                rep.violations.push((v.clone(), idx, sc.clone()));
            }
        }
        // sample: first non-trivial cases
        if rep.samples.len() < 2 && out.nontrivial && out.invalid.is_none() {
            rep.samples.push(sc.clone());
        }
        // in-run determinism re-check on ~2% of cases (same process; cross-process is the selftest)
        if mix(idx, 0xD37) % 50 == 0 {
            let out2 = run_case(check, &sc);
            rep.determinism_rechecks += 1;
            if out2.trace_hash != out.trace_hash || out2.signature != out.signature {
                rep.determinism_mismatches.push(idx);
            }
        }
        rep.last_idx = idx;
        n += 1;
        idx += a.workers;
    }
    rep.complete = complete;
    // write sigs + fps as binary
    let mut buf = Vec::with_capacity(sigs.len() * 8);
    for s in &sigs {
        buf.extend_from_slice(&s.to_le_bytes());
    }
    let _ = std::fs::write(a.dir.join(format!("{tag}.sigs")), &buf);
    let mut buf = Vec::with_capacity(fps.len() * 8);
    for s in &fps {
        buf.extend_from_slice(&s.to_le_bytes());
    }
    let _ = std::fs::write(a.dir.join(format!("{tag}.fps")), &buf);
    let _ = std::fs::write(a.dir.join(format!("{tag}.json")), serde_json::to_vec(&rep).unwrap());
    0
}

// ------------------------------------------------------------------------------------------
// isolated execution (fresh process) — used by minimisation and replay verification

pub fn exec_isolated(check_id: &str, scenario: &Value) -> Result<Outcome, String> {
    let exe = std::env::current_exe().map_err(|e| e.to_string())?;
    let mut child = Command::new(exe)
        .arg("exec")
        .arg(check_id)
        .stdin(Stdio::piped())
        .stdout(Stdio::piped())
        .stderr(Stdio::null())
        .spawn()
        .map_err(|e| e.to_string())?;
    {
        let mut stdin = child.stdin.take().unwrap();
        stdin
            .write_all(&serde_json::to_vec(scenario).unwrap())
            .map_err(|e| e.to_string())?;
    }
    let mut s = String::new();
    child
        .stdout
        .take()
        .unwrap()
        .read_to_string(&mut s)
        .map_err(|e| e.to_string())?;
    let status = child.wait().map_err(|e| e.to_string())?;
    if !status.success() {
        // died on a signal / abort: that itself is the observation
        let mut o = Outcome::default();
        o.violate(
            format!("{check_id}/process-died"),
            format!("executing the scenario killed the process: {status}"),
        );
        return Ok(o);
    }
    serde_json::from_str(&s).map_err(|e| format!("bad exec output: {e}: {s}"))
}

/// Splits the case index space between a side arm and the main generator of a check: every
/// `m`-th index (m odd, so the arm is spread over all workers, which take indexes i, i+16, ...)
/// goes to the arm; the others are renumbered 0, 1, 2, ... without gaps, so an enumerated grid
/// behind them stays complete. Returns Ok(arm ordinal) or Err(main index).
pub fn arm_split(idx: u64, m: u64) -> Result<u64, u64> {
    if idx % m == m - 1 {
        Ok(idx / m)
    } else {
        Err(idx - idx / m)
    }
}

pub fn run_exec(check: &dyn Check) -> i32 {
    install_panic_hook();
    let mut s = String::new();
    std::io::stdin().read_to_string(&mut s).unwrap();
    let sc: Value = match serde_json::from_str(&s) {
        Ok(v) => v,
        Err(e) => {
            eprintln!("bad scenario: {e}");
            return 2;
        },
    };
    if let Ok(f) = std::env::var("DCSIM_TRACE") {
        use tracing_subscriber::EnvFilter;
        let _ = tracing_subscriber::fmt().with_env_filter(EnvFilter::new(f)).without_time().with_writer(std::io::stderr).try_init();
    }
    let out = execute_guarded(check, &sc);
    println!("{}", serde_json::to_string(&out).unwrap());
    0
}

/// Greedy delta-debugging: keep any candidate that still shows a violation of `class`.
pub fn minimise(check: &dyn Check, scenario: &Value, class: &str, max_execs: usize, wall: Duration) -> (Value, usize) {
    let start = Instant::now();
    let mut cur = scenario.clone();
    let mut execs = 0usize;
    'outer: loop {
        let cands = check.shrink(&cur);
        for c in cands {
            if execs >= max_execs || start.elapsed() > wall {
                break 'outer;
            }
            execs += 1;
            match exec_isolated(check.id(), &c) {
                Ok(o) => {
                    if o.invalid.is_none() && o.violations.iter().any(|v| v.class == class) {
                        cur = c;
                        continue 'outer;
                    }
                },
                Err(_) => {},
            }
        }
        break;
    }
    (cur, execs)
}

// ------------------------------------------------------------------------------------------
// known findings

#[derive(Deserialize, Default)]
pub struct KnownFindings {
    #[serde(default)]
    pub findings: Vec<KnownFinding>,
    #[serde(default)]
    pub fixed: Vec<String>,
}

#[derive(Deserialize, Clone)]
pub struct KnownFinding {
    pub property: String,
    /// exact violation class
    pub class: String,
    pub what: String,
}

pub fn verif_root() -> PathBuf {
    if let Ok(p) = std::env::var("VERIF_ROOT") {
        return PathBuf::from(p);
    }
    // binary lives in <root>/sim/target/release/dcsim
    let exe = std::env::current_exe().unwrap();
    let mut p = exe.as_path();
    for _ in 0..4 {
        p = p.parent().unwrap_or(Path::new("/verif"));
    }
    if p.join("properties.jsonl").exists() {
        p.to_path_buf()
    } else {
        PathBuf::from("/verif")
    }
}

pub fn load_known() -> KnownFindings {
    let p = verif_root().join("known-findings.json");
    match std::fs::read_to_string(&p) {
        Ok(s) => serde_json::from_str(&s).unwrap_or_default(),
        Err(_) => KnownFindings::default(),
    }
}

// ------------------------------------------------------------------------------------------
// the driver: search + triage + evidence

fn read_u64s(p: &Path, into: &mut HashSet<u64>) {
    if let Ok(b) = std::fs::read(p) {
        for c in b.chunks_exact(8) {
            into.insert(u64::from_le_bytes(c.try_into().unwrap()));
        }
    }
}

pub fn run_check(check: &dyn Check, tier: Tier, seed: u64) -> i32 {
    let start = Instant::now();
    let root = verif_root();
    let mut budget = check.budget(tier);
    if let Ok(w) = std::env::var("VERIF_WORKERS") {
        if let Ok(w) = w.parse::<usize>() {
            budget.workers = w.max(1);
        }
    }
    if let Ok(w) = std::env::var("VERIF_WALL_SECS") {
        if let Ok(w) = w.parse::<u64>() {
            budget.wall_secs = w;
        }
    }
    let scratch = root.join("sim").join("target").join("scratch").join(format!(
        "{}-{}-{}",
        check.id(),
        tier.name(),
        std::process::id()
    ));
    let _ = std::fs::remove_dir_all(&scratch);
    std::fs::create_dir_all(&scratch).expect("scratch dir");
    println!(
        "dcsim: property={} tier={} VERIF_SEED={} workers={} wall_cap={}s max_cases={}",
        check.id(),
        tier.name(),
        seed,
        budget.workers,
        budget.wall_secs,
        budget.max_cases
    );

    let exe = std::env::current_exe().unwrap();
    // one supervising thread per worker slot: a worker that dies on a signal is replaced by a
    // fresh process that continues behind the killing case
    let mut slots = Vec::new();
    for w in 0..budget.workers {
        let (exe, scratch, id, tname) = (exe.clone(), scratch.clone(), check.id().to_string(), tier.name().to_string());
        let b = budget;
        slots.push(std::thread::spawn(move || {
            let begun = Instant::now();
            let mut died: Vec<(u64, String)> = Vec::new();
            let mut start_idx = w as u64;
            let mut part = 0u32;
            loop {
                let left = b.wall_secs.saturating_sub(begun.elapsed().as_secs());
                let st = Command::new(&exe)
                    .arg("worker")
                    .arg(&id)
                    .arg(&tname)
                    .arg(seed.to_string())
                    .arg(w.to_string())
                    .arg(b.workers.to_string())
                    .arg(left.max(1).to_string())
                    .arg(b.max_cases.to_string())
                    .arg(b.checkpoint_every.to_string())
                    .arg(&scratch)
                    .arg(start_idx.to_string())
                    .arg(part.to_string())
                    .stdout(Stdio::null())
                    .stderr(Stdio::null())
                    .status();
                match st {
                    Ok(st) if st.success() => break,
                    Ok(st) => {
                        let at = std::fs::read_to_string(scratch.join(format!("w{w}.ckpt"))).ok().and_then(|s| s.trim().parse::<u64>().ok()).unwrap_or(start_idx);
                        died.push((at, format!("{st}")));
                        if part >= 20 || left <= 1 {
                            break;
                        }
                        // continue behind the checkpoint window that contains the killing case
                        start_idx = at + b.checkpoint_every.max(1) * b.workers as u64;
                        part += 1;
                    },
                    Err(e) => {
                        died.push((start_idx, format!("spawn failed: {e}")));
                        break;
                    },
                }
            }
            (w, died)
        }));
    }
    let mut died: Vec<(usize, u64, String)> = Vec::new();
    for h in slots {
        if let Ok((w, d)) = h.join() {
            for (at, st) in d {
                died.push((w, at, st));
            }
        }
    }
    let search_wall = start.elapsed().as_secs_f64();

    // aggregate
    let mut agg = WorkerReport::default();
    let mut sigs = HashSet::new();
    let mut fps = HashSet::new();
    let mut complete = true;
    let mut harness_errors: Vec<String> = Vec::new();
    let mut part_files: Vec<PathBuf> = std::fs::read_dir(&scratch).map(|rd| rd.filter_map(|e| e.ok().map(|e| e.path())).collect()).unwrap_or_default();
    part_files.sort();
    let mut reported_slots: BTreeSet<String> = BTreeSet::new();
    for p in &part_files {
        let name = p.file_name().and_then(|n| n.to_str()).unwrap_or("").to_string();
        if name.ends_with(".sigs") {
            read_u64s(p, &mut sigs);
            continue;
        }
        if name.ends_with(".fps") {
            read_u64s(p, &mut fps);
            continue;
        }
        if !name.ends_with(".json") {
            continue;
        }
        match std::fs::read(p).ok().and_then(|b| serde_json::from_slice::<WorkerReport>(&b).ok()) {
            Some(r) => {
                reported_slots.insert(name.split('.').next().unwrap_or("").to_string());
                agg.evaluations += r.evaluations;
                agg.nontrivial += r.nontrivial;
                agg.sim_ms += r.sim_ms;
                for (k, v) in r.faults {
                    *agg.faults.entry(k).or_insert(0) += v;
                }
                for (k, v) in r.probes {
                    *agg.probes.entry(k).or_insert(0) += v;
                }
                for v in r.violations {
                    if !agg.violations.iter().any(|(x, _, _)| x.class == v.0.class) {
                        agg.violations.push(v);
                    }
                }
                agg.invalid.extend(r.invalid);
                agg.anomalies.extend(r.anomalies);
                if agg.samples.len() < 3 {
                    agg.samples.extend(r.samples.into_iter().take(1));
                }
                agg.determinism_rechecks += r.determinism_rechecks;
                agg.determinism_mismatches.extend(r.determinism_mismatches);
                complete &= r.complete;
                agg.sigs_capped |= r.sigs_capped;
            },
            None => complete = false,
        }
    }
    if reported_slots.len() < budget.workers {
        complete = false;
    }
    if !died.is_empty() {
        complete = false;
    }

    // a worker that died on a signal: find the case that killed it
    for (w, from, st) in &died {
        let mut found = false;
        let mut idx = *from;
        let span = budget.checkpoint_every.max(1) * budget.workers as u64;
        while idx < from + span {
            let sc = check.generate(seed, idx, tier);
            if let Ok(o) = exec_isolated(check.id(), &sc) {
                if let Some(v) = o.violations.iter().find(|v| v.class.ends_with("/process-died")) {
                    if !agg.violations.iter().any(|(x, _, _)| x.class == v.class) {
                        agg.violations.push((v.clone(), idx, sc));
                    }
                    found = true;
                    break;
                }
            }
            idx += budget.workers as u64;
        }
        if !found {
            harness_errors.push(format!("worker {w} died ({st}) near case idx {from} and no single case of that window reproduces the death in a fresh process"));
        }
    }

    if !agg.invalid.is_empty() {
        harness_errors.push(format!(
            "{} generated scenario(s) were outside the precondition, e.g. idx {}: {}",
            agg.invalid.len(),
            agg.invalid[0].0,
            agg.invalid[0].1
        ));
    }
    if !agg.determinism_mismatches.is_empty() {
        harness_errors.push(format!(
            "replay mismatch: re-executing case idx {:?} gave a different trace",
            &agg.determinism_mismatches[..agg.determinism_mismatches.len().min(5)]
        ));
    }

    // regression corpus: scenarios of violations that were found and repaired earlier are
    // re-executed on every run; a repaired defect that returns is reported like any other.
    let mut regression_cases = 0u64;
    if let Ok(rd) = std::fs::read_dir(root.join("regressions")) {
        let mut files: Vec<PathBuf> = rd.filter_map(|e| e.ok().map(|e| e.path())).collect();
        files.sort();
        for f in files {
            let name = f.file_name().and_then(|n| n.to_str()).unwrap_or("").to_string();
            if !name.starts_with(&format!("{}-", check.id())) || !name.ends_with(".json") {
                continue;
            }
            let Some(v) = std::fs::read(&f).ok().and_then(|b| serde_json::from_slice::<Value>(&b).ok()) else {
                harness_errors.push(format!("unreadable regression file {}", f.display()));
                continue;
            };
            let sc = v["scenario"].clone();
            regression_cases += 1;
            match exec_isolated(check.id(), &sc) {
                Ok(o) => {
                    if let Some(r) = o.invalid {
                        harness_errors.push(format!("regression scenario {} is invalid: {r}", f.display()));
                    }
                    for viol in o.violations {
                        if !agg.violations.iter().any(|(x, _, _)| x.class == viol.class) {
                            agg.violations.push((viol, u64::MAX, sc.clone()));
                        }
                    }
                },
                Err(e) => harness_errors.push(format!("regression scenario {} failed to execute: {e}", f.display())),
            }
        }
    }

    // triage violations
    let known = load_known();
    let mut known_hits: Vec<KnownFinding> = Vec::new();
    let mut new_violations: Vec<(Violation, PathBuf)> = Vec::new();
    // VERIF_NO_EVIDENCE: self-tests against deliberately broken trees must not touch the
    // committed evidence / replay files
    let scratch_out = std::env::var_os("VERIF_NO_EVIDENCE").map(|_| root.join("sim").join("target").join("scratch-out"));
    let replays = scratch_out.as_ref().map(|p| p.join("replays")).unwrap_or_else(|| root.join("replays"));
    for (v, idx, sc) in &agg.violations {
        if let Some(k) = known
            .findings
            .iter()
            .find(|k| k.property == check.id() && k.class == v.class)
        {
            if !known_hits.iter().any(|h| h.class == k.class) {
                known_hits.push(k.clone());
            }
            continue;
        }
        let _ = std::fs::create_dir_all(&replays);
        let (min_exec, min_wall) = match tier {
            Tier::Quick => (150, Duration::from_secs(45)),
            Tier::Thorough => (600, Duration::from_secs(240)),
        };
        let (min_sc, execs) = minimise(check, sc, &v.class, min_exec, min_wall);
        // prove the minimised scenario replays identically in two fresh processes
        let o1 = exec_isolated(check.id(), &min_sc);
        let o2 = exec_isolated(check.id(), &min_sc);
        let (final_sc, o) = match (o1, o2) {
            (Ok(a), Ok(b))
                if a.trace_hash == b.trace_hash
                    && a.violations.iter().any(|x| x.class == v.class)
                    && b.violations.iter().any(|x| x.class == v.class) =>
            {
                (min_sc, a)
            },
            _ => {
                // fall back to the original case; if that does not replay either it is our fault
                match (exec_isolated(check.id(), sc), exec_isolated(check.id(), sc)) {
                    (Ok(a), Ok(b))
                        if a.trace_hash == b.trace_hash
                            && a.violations.iter().any(|x| x.class == v.class) =>
                    {
                        let _ = b;
                        (sc.clone(), a)
                    },
                    _ => {
                        harness_errors.push(format!(
                            "violation {} at case idx {} did not replay identically in a fresh process",
                            v.class, idx
                        ));
                        continue;
                    },
                }
            },
        };
        let detail = o
            .violations
            .iter()
            .find(|x| x.class == v.class)
            .map(|x| x.detail.clone())
            .unwrap_or_default();
        let fname = format!(
            "{}-{}-{}.json",
            check.id(),
            sanitize(&v.class),
            seed
        );
        let path = replays.join(fname);
        let file = json!({
            "property": check.id(),
            "engine": check.engine(),
            "seed": seed,
            "case_index": idx,
            "scenario": final_sc,
            "expect": { "violation": v.class, "detail": detail, "trace_hash": format!("{:016x}", o.trace_hash) },
            "minimisation": { "executions": execs },
        });
        let _ = std::fs::write(&path, serde_json::to_vec_pretty(&file).unwrap());
        new_violations.push((
            Violation {
                class: v.class.clone(),
                detail,
            },
            path,
        ));
    }

    // anomalies not explained by a violation are harness errors
    if !agg.anomalies.is_empty() && agg.violations.is_empty() {
        harness_errors.push(format!(
            "{} unexplained panic(s) outside repository code, e.g. idx {}: {}",
            agg.anomalies.len(),
            agg.anomalies[0].0,
            agg.anomalies[0].1
        ));
    }

    let wall = start.elapsed().as_secs_f64();
    let exhaustive = match check.total_cases(tier) {
        Some(t) => complete && agg.evaluations >= t.min(budget.max_cases) && t <= budget.max_cases,
        None => false,
    };
    let distinct = sigs.len() as u64;
    let per_hour = if search_wall > 0.0 {
        (agg.evaluations as f64 / search_wall * 3600.0) as u64
    } else {
        0
    };
    let mut comps = serde_json::Map::new();
    for (k, v) in check.components() {
        comps.insert(k.to_string(), Value::String(v.to_string()));
    }
    let evidence = json!({
        "property_id": check.id(),
        "tier": tier.name(),
        "seed": seed,
        "level": check.level(),
        "wall_s": (wall * 1000.0).round() / 1000.0,
        "violations": new_violations.len(),
        "assumptions": check.assumptions(),
        "coverage": {
            "evaluations": agg.evaluations,
            "distinct_nontrivial": distinct,
            "distinct_nontrivial_note": if agg.sigs_capped { "signature sets were capped per worker; this is an undercount" } else { "exact union of per-worker signature sets" },
            "nontrivial_evaluations": agg.nontrivial,
            "rule": check.rule(),
            "samples": agg.samples,
            "exhaustive": exhaustive,
            "engine": check.engine(),
            "technique": "deterministic simulation with fault injection: seeded search over schedules and fault sequences",
            "runs_per_hour": per_hour,
            "seeds_per_hour": per_hour,
            "search_wall_s": (search_wall * 1000.0).round() / 1000.0,
            "simulated_seconds": agg.sim_ms / 1000,
            "faults_fired": agg.faults,
            "probes": agg.probes,
            "distinct_final_states": fps.len(),
            "workers": budget.workers,
            "budget_exhausted_before_case_cap": !complete,
            "regression_scenarios_replayed": regression_cases,
            "determinism_rechecks": agg.determinism_rechecks,
            "determinism_mismatches": agg.determinism_mismatches.len(),
            "components": Value::Object(comps),
            "known_findings_observed": known_hits.iter().map(|k| k.class.clone()).collect::<Vec<_>>(),
            "new_violation_classes": new_violations.iter().map(|(v, _)| v.class.clone()).collect::<Vec<_>>(),
            "harness_errors": harness_errors,
        }
    });
    let evdir = scratch_out.as_ref().map(|p| p.join("evidence")).unwrap_or_else(|| root.join("evidence"));
    let _ = std::fs::create_dir_all(&evdir);
    let _ = std::fs::write(
        evdir.join(format!("{}.json", check.id())),
        serde_json::to_vec_pretty(&evidence).unwrap(),
    );
    let _ = std::fs::remove_dir_all(&scratch);

    println!(
        "dcsim: {} evaluations={} distinct_nontrivial={} sim_seconds={} wall={:.1}s runs/hour={} faults={:?}",
        check.id(),
        agg.evaluations,
        distinct,
        agg.sim_ms / 1000,
        wall,
        per_hour,
        agg.faults
    );
    for k in &known_hits {
        println!("KNOWN-FINDING: property={} {} [{}]", k.property, k.what, k.class);
    }
    for (v, p) in &new_violations {
        println!("VIOLATION property={} replay={}", check.id(), p.display());
        println!("  class={} detail={}", v.class, v.detail);
    }
    if !new_violations.is_empty() {
        return 1;
    }
    if !harness_errors.is_empty() {
        for e in &harness_errors {
            println!("HARNESS-ERROR: {e}");
        }
        return 2;
    }
    if agg.evaluations == 0 {
        println!("HARNESS-ERROR: no case was executed");
        return 2;
    }
    0
}

fn sanitize(s: &str) -> String {
    s.chars()
        .map(|c| if c.is_ascii_alphanumeric() || c == '-' || c == '_' { c } else { '_' })
        .collect::<String>()
        .chars()
        .take(80)
        .collect()
}

pub fn run_replay(checks: &[&dyn Check], path: &str) -> i32 {
    install_panic_hook();
    let s = match std::fs::read_to_string(path) {
        Ok(s) => s,
        Err(e) => {
            println!("cannot read {path}: {e}");
            return 2;
        },
    };
    let v: Value = match serde_json::from_str(&s) {
        Ok(v) => v,
        Err(e) => {
            println!("bad replay file: {e}");
            return 2;
        },
    };
    let pid = v["property"].as_str().unwrap_or("");
    let Some(check) = checks.iter().find(|c| c.id() == pid) else {
        println!("unknown property {pid}");
        return 2;
    };
    let sc = &v["scenario"];
    let out = execute_guarded(*check, sc);
    let want = v["expect"]["violation"].as_str().unwrap_or("");
    let want_hash = v["expect"]["trace_hash"].as_str().unwrap_or("");
    let got_hash = format!("{:016x}", out.trace_hash);
    println!("replay: property={pid} trace_hash={got_hash} (recorded {want_hash}) violations={}", out.violations.len());
    for x in &out.violations {
        println!("  {} :: {}", x.class, x.detail);
    }
    if let Some(r) = &out.invalid {
        println!("scenario invalid: {r}");
        return 2;
    }
    if out.violations.iter().any(|x| x.class == want) {
        println!(
            "REPRODUCED property={pid} class={want} trace_identical={}",
            got_hash == want_hash
        );
        println!("VIOLATION property={pid} replay={path}");
        1
    } else if !out.violations.is_empty() {
        println!("a different violation was observed");
        println!("VIOLATION property={pid} replay={path}");
        1
    } else {
        println!("NOT REPRODUCED (property holds on this scenario with the current code)");
        0
    }
}

/// Cross-process determinism self-test: every case twice, in two different fresh processes.
pub fn run_determinism_selftest(check: &dyn Check, n: u64, seed: u64) -> i32 {
    let mut bad = 0;
    let mut done = 0;
    let tiers = [Tier::Quick];
    for tier in tiers {
        let mut handles = Vec::new();
        let per = 16u64;
        for w in 0..per {
            let id = check.id().to_string();
            let scs: Vec<Value> = (0..n).filter(|i| i % per == w).map(|i| check.generate(seed, i, tier)).collect();
            handles.push(std::thread::spawn(move || {
                let mut bad = 0u64;
                let mut done = 0u64;
                for sc in scs {
                    let a = exec_isolated(&id, &sc);
                    let b = exec_isolated(&id, &sc);
                    match (a, b) {
                        (Ok(a), Ok(b)) => {
                            if a.trace_hash != b.trace_hash || a.signature != b.signature || a.violations != b.violations {
                                bad += 1;
                            }
                        },
                        _ => bad += 1,
                    }
                    done += 1;
                }
                (bad, done)
            }));
        }
        for h in handles {
            let (b, d) = h.join().unwrap();
            bad += b;
            done += d;
        }
    }
    println!("determinism selftest {}: {} cases run twice in fresh processes, {} mismatches", check.id(), done, bad);
    if bad == 0 {
        0
    } else {
        2
    }
}

pub fn sorted_set<T: Ord + Clone>(it: impl IntoIterator<Item = T>) -> Vec<T> {
    let s: BTreeSet<T> = it.into_iter().collect();
    s.into_iter().collect()
}

/// A caller that gives up: the wrapped future is polled until it has returned `Pending` `left`
/// times and is then abandoned (dropped by whoever awaited this wrapper) at the await point it has
/// reached - also one that would have been passed without any virtual time going by, which a
/// timeout in virtual time can never hit.
pub struct GiveUpAfterPolls<F> {
    inner: std::pin::Pin<Box<F>>,
    left: u32,
}

impl<F: std::future::Future> GiveUpAfterPolls<F> {
    pub fn new(f: F, polls: u32) -> Self {
        GiveUpAfterPolls { inner: Box::pin(f), left: polls.max(1) }
    }
}

impl<F: std::future::Future> std::future::Future for GiveUpAfterPolls<F> {
    type Output = Option<F::Output>;
    fn poll(mut self: std::pin::Pin<&mut Self>, cx: &mut std::task::Context<'_>) -> std::task::Poll<Self::Output> {
        match self.inner.as_mut().poll(cx) {
            std::task::Poll::Ready(v) => std::task::Poll::Ready(Some(v)),
            std::task::Poll::Pending => {
                if self.left <= 1 {
                    std::task::Poll::Ready(None)
                } else {
                    self.left -= 1;
                    std::task::Poll::Pending
                }
            },
        }
    }
}

