//! C11 — the node clock serialises concurrent callers: no duplicate or regressing stamps.

use std::cell::{Cell, RefCell};
use std::rc::Rc;
use std::time::Duration;

use datacake_crdt::HLCTimestamp;
use datacake_node::Clock;
use rand::Rng;
use serde::{Deserialize, Serialize};
use serde_json::Value;

use super::*;
use crate::framework::*;

const DRIFT_MS: i64 = 4_100_000;

#[derive(Serialize, Deserialize, Clone, Debug)]
pub struct Step {
    pub delay_ms: u64,
    /// None = get_time; Some((offset from the wall clock in ms, counter, node)) = register_ts
    pub reg: Option<(i64, u16, u8)>,
    /// > 0: a flood - this many register_ts calls back to back (offsets rising by 1 ms each from
    /// `reg`'s offset), more than the clock's inbox holds
    #[serde(default)]
    pub flood: u32,
    /// get_time only: the caller goes away - its future is dropped after it has been polled once
    /// (the request is already queued at the clock); nothing is recorded for it unless it had
    /// been answered by then
    #[serde(default)]
    pub abandon: bool,
}

#[derive(Serialize, Deserialize, Clone, Debug)]
pub struct WallEv {
    /// virtual ms since start at which the wall clock jumps by `jump_ms` (negative = backwards)
    pub at_ms: u64,
    pub jump_ms: i64,
}

#[derive(Serialize, Deserialize, Clone, Debug)]
pub struct Scenario {
    pub base_ms: u64,
    pub node: u8,
    /// one list of steps per caller task
    pub events: Vec<Vec<Step>>,
    pub wall: Vec<WallEv>,
}

pub struct C11;

#[derive(Clone, Debug)]
enum Rec {
    Got { task: usize, inv: u64, ret: u64, ts: HLCTimestamp, vt_ret: u64 },
    Reg { inv: u64, ret: u64, ts: HLCTimestamp, vt_inv: u64 },
}

/// One real node (DatacakeNodeBuilder::connect on a simulated host): stamps taken through
/// `node.clock()` and through `node.handle().clock()` come from one clock.
fn execute_real_node(r: &Value) -> Outcome {
    use std::cell::RefCell;
    use std::rc::Rc;
    let mut out = Outcome::default();
    let id = r["node"].as_u64().unwrap_or(1) as u8;
    let lead_ms = r["lead_ms"].as_u64().unwrap_or(30_000);
    let rounds = r["rounds"].as_u64().unwrap_or(3);
    let net_seed = r["net_seed"].as_u64().unwrap_or(1);
    let base_ms: u64 = 20_000_000_000;
    datacake_crdt::verif::set_wall_clock(Some(Box::new(move |_n| datacake_crdt::DATACAKE_EPOCH + Duration::from_millis(base_ms) + turmoil::elapsed())));
    let found: Rc<RefCell<Vec<(String, String)>>> = Rc::new(RefCell::new(Vec::new()));
    let mut sim = turmoil::Builder::new()
        .simulation_duration(Duration::from_secs(600))
        .tick_duration(Duration::from_millis(1))
        .build_with_rng(Box::new(<rand::rngs::SmallRng as rand::SeedableRng>::seed_from_u64(net_seed)));
    {
        let found = found.clone();
        sim.client("solo", async move {
            let ip = turmoil::lookup("solo");
            let addr: std::net::SocketAddr = (ip, 9000).into();
            let node = datacake_node::DatacakeNodeBuilder::<datacake_node::DCAwareSelector>::new(id, datacake_node::ConnectionConfig::new(addr, addr, Vec::<String>::new()))
                .connect()
                .await
                .map_err(|e| format!("connect: {e}"))?;
            let handle = node.handle();
            let mut issued: Vec<HLCTimestamp> = Vec::new();
            for round in 0..rounds {
                tokio::time::sleep(Duration::from_millis(37)).await;
                // a peer whose clock runs ahead (within the permitted drift) is heard of on one
                // clock handle; the next stamp taken through the other must be greater
                let now_ms = base_ms + turmoil::elapsed().as_millis() as u64;
                let remote = HLCTimestamp::new(Duration::from_millis((now_ms + lead_ms * (round + 1)) / 4 * 4), 0, id.wrapping_add(1));
                let (via_a, via_b) = if round % 2 == 0 { ("node.clock()", "node.handle().clock()") } else { ("node.handle().clock()", "node.clock()") };
                if round % 2 == 0 {
                    node.clock().register_ts(remote).await;
                } else {
                    handle.clock().register_ts(remote).await;
                }
                let got = if round % 2 == 0 { handle.clock().get_time().await } else { node.clock().get_time().await };
                if got <= remote {
                    found.borrow_mut().push(("C11/real-node/timestamp-not-greater-than-registered-remote".into(), format!("{remote} was registered through {via_a}; a stamp taken afterwards through {via_b} is {got}")));
                }
                issued.push(got);
                // the same instant through both handles
                let a = node.clock().get_time().await;
                let b = handle.clock().get_time().await;
                issued.push(a);
                issued.push(b);
            }
            let mut sorted = issued.clone();
            sorted.sort();
            if let Some(w) = sorted.windows(2).find(|w| w[0] == w[1]) {
                found.borrow_mut().push(("C11/real-node/duplicate-timestamp".into(), format!("{} was handed out twice by the clock handles of one node", w[0])));
            }
            if issued.windows(2).any(|w| w[1] <= w[0]) {
                found.borrow_mut().push(("C11/real-node/timestamps-not-increasing".into(), format!("stamps taken one after the other through the node's clock handles: {:?}", issued.iter().map(|t| t.to_string()).collect::<Vec<_>>())));
            }
            Ok(())
        });
    }
    let run = std::panic::catch_unwind(std::panic::AssertUnwindSafe(|| sim.run()));
    drop(sim);
    datacake_crdt::verif::set_wall_clock(None);
    for (loc, msg) in take_panics() {
        if loc.starts_with("/repo/") {
            out.violate(format!("C11/panic@{}", loc.trim_start_matches("/repo/")), format!("{loc}: {msg}"));
        } else {
            out.anomalies.push(format!("{loc}: {msg}"));
        }
    }
    if let Ok(Err(e)) = &run {
        out.anomalies.push(format!("simulation ended with: {e}"));
    }
    for (c, d) in found.borrow().iter() {
        out.violate(c.clone(), d.clone());
    }
    out.probe("real_node_arm_case");
    out.nontrivial = true;
    let mut tr = Fnv::new();
    tr.u64(id as u64).u64(lead_ms).u64(rounds);
    out.trace_hash = tr.finish();
    out.signature = tr.finish();
    out.state_fp = tr.finish();
    out.sim_ms = 37 * rounds;
    out
}

impl Check for C11 {
    fn id(&self) -> &'static str {
        "C11"
    }
    fn title(&self) -> &'static str {
        "Node clock serialises concurrent callers: no duplicate or regressing stamps"
    }
    fn engine(&self) -> &'static str {
        "E1 single-node engine: the real Clock actor with 2-8 concurrent caller tasks (get_time / register_ts) under seeded virtual delays, wall clock advancing, stalled or jumping"
    }
    fn rule(&self) -> &'static str {
        "Cases: 2-8 caller tasks, each 1-25 steps of get_time or register_ts(remote) separated by seeded virtual delays 0-6 ms; one get_time in eight is abandoned by its caller (the future is dropped once the request is queued at the clock) (zero delays make callers contend for the actor's channel in seeded orders); one case in twelve adds a flood of 1100-2500 back-to-back register_ts calls (more than the clock's 1000-slot inbox) followed by a get_time; remote stamps behind / at / ahead of the wall clock within and beyond the drift limit, from other nodes or the clock's own id, counters 0..65535; 0-3 wall-clock jumps of up to 10 minutes either way (so that, together with accepted remote leads of up to 33 minutes, the clock never has to refuse for drift - that refusal is C09's subject). Invocations and returns are stamped with a global event sequence number. Oracle over the history: returned stamps pairwise distinct; per task strictly increasing; a get_time invoked after register_ts(r) returned yields > r unless r was beyond the drift limit (or carried the clock's own node id). Non-trivial = >= 2 tasks overlap and >= 1 register_ts. Distinct = hash of the returned-stamp order."
    }
    fn assumptions(&self) -> Vec<String> {
        vec![
            "remote counters stay below 60 000, except in the back-pressure family (one case in ten: a remote stamp 8-40 ms ahead with counter 65 515-65 523 and at most eight get_time calls, so the counter crosses the actor's back-pressure limit of 65 525 without being exhausted): counter exhaustion inside one 4 ms tick is outside the statement (C09 covers the refusal at the HLC level)".into(),
            "the clock actor is fed by one channel, so its behaviours are the channel orders; those are sampled on one OS thread by seeded virtual delays. Real multi-threaded runs are not reproducible and not used".into(),
            "a remote stamp counts as beyond the drift limit only if it was so both when register_ts was invoked and when it returned (otherwise the case is exempt)".into(),
        ]
    }
    fn components(&self) -> Vec<(&'static str, &'static str)> {
        vec![("datacake-node Clock actor (run_clock, flume channel) + HLCTimestamp", "real"), ("wall clock", "injected, follows virtual time plus scheduled jumps"), ("tokio", "real, current_thread, paused")]
    }
    fn budget(&self, tier: Tier) -> Budget {
        match tier {
            Tier::Quick => Budget { wall_secs: 40, max_cases: 400_000, checkpoint_every: 128, workers: 16 },
            Tier::Thorough => Budget { wall_secs: 600, max_cases: 20_000_000, checkpoint_every: 128, workers: 16 },
        }
    }
    fn generate(&self, seed: u64, idx: u64, _tier: Tier) -> Value {
        // real-node arm: the clock a running node hands out through its handle (the one the store
        // stamps writes with) is the node's one shared clock
        if let Ok(ordinal) = arm_split(idx, 1999) {
            let mut rng = rng_from(case_seed(seed ^ 0xC11, ordinal));
            return serde_json::json!({ "real_node": { "node": rng.gen_range(0..=255u8), "lead_ms": rng.gen_range(1_000..300_000u64), "rounds": rng.gen_range(2..=6), "net_seed": rng.gen::<u64>() } });
        }
        let idx = idx - idx / 1999;
        let mut rng = rng_from(case_seed(seed, idx));
        let node = rng.gen_range(0..=255u8);
        if rng.gen_bool(0.1) {
            // back-pressure family: a remote stamp a few ticks ahead of the wall clock with a counter
            // just below the clock's back-pressure limit (65 525), then at most eight get_time calls
            // by two tasks - the counter crosses the limit (the actor pauses 1 ms per request) but
            // stays clear of exhaustion
            let other = if node == 9 { 10 } else { 9 };
            let mut t0 = vec![Step { delay_ms: rng.gen_range(0..3), reg: Some((rng.gen_range(8..40), rng.gen_range(65_515..=65_523), other)), flood: 0, abandon: false }];
            for _ in 0..rng.gen_range(1..=4) {
                t0.push(Step { delay_ms: rng.gen_range(0..4), reg: None, flood: 0, abandon: false });
            }
            let t1: Vec<Step> = (0..rng.gen_range(1..=4)).map(|_| Step { delay_ms: rng.gen_range(0..4), reg: None, flood: 0, abandon: false }).collect();
            return serde_json::to_value(Scenario { base_ms: rng.gen_range(5_000_000_000u64..60_000_000_000), node, events: vec![t0, t1], wall: vec![] }).unwrap();
        }
        let tasks = rng.gen_range(2..=8);
        let contended = rng.gen_bool(0.5);
        let mut events = Vec::new();
        for _ in 0..tasks {
            let mut steps = Vec::new();
            for _ in 0..rng.gen_range(1..=25) {
                let delay_ms = if contended && rng.gen_bool(0.7) { 0 } else { rng.gen_range(0..7) };
                let reg = if rng.gen_bool(0.3) {
                    let off: i64 = match rng.gen_range(0..8) {
                        0 => -rng.gen_range(0..7_200_000),
                        1 => 0,
                        2 => rng.gen_range(0..2_000_000),
                        3 => DRIFT_MS + rng.gen_range(2_000_000..9_000_000),
                        4 => rng.gen_range(0..50),
                        _ => rng.gen_range(-2_000..60_000),
                        // (accepted remote lead + total backwards jump stays below the drift limit, so
                        //  HLCTimestamp::send never has to refuse: that refusal is C09's subject)
                    };
                    // counters stay clear of exhaustion (65 535 stamps inside one 4 ms tick):
                    // the statement does not cover it; C09 checks the refusal at the HLC level
                    let c = match rng.gen_range(0..10) {
                        0 => 60_000,
                        1 => rng.gen_range(0..60_000),
                        _ => rng.gen_range(0..5),
                    };
                    let n = if rng.gen_bool(0.08) { node } else { rng.gen_range(0..=255u8) };
                    Some((off, c, n))
                } else {
                    None
                };
                let abandon = reg.is_none() && rng.gen_bool(0.12);
                steps.push(Step { delay_ms, reg, flood: 0, abandon });
            }
            events.push(steps);
        }
        if rng.gen_bool(0.08) {
            // one task floods the clock with more registrations than its inbox (1000) holds
            let n = rng.gen_range(1_100..2_500);
            let other = if node == 7 { 8 } else { 7 };
            events[0].push(Step { delay_ms: rng.gen_range(0..5), reg: Some((rng.gen_range(0..60_000), 0, other)), flood: n, abandon: false });
            events[0].push(Step { delay_ms: 0, reg: None, flood: 0, abandon: false });
        }
        let mut wall = Vec::new();
        for _ in 0..rng.gen_range(0..=3) {
            // backwards jumps stay (in total) inside the drift limit: beyond it HLCTimestamp::send
            // itself refuses (C09), which is not what this property is about
            wall.push(WallEv { at_ms: rng.gen_range(0..60), jump_ms: if rng.gen_bool(0.6) { -rng.gen_range(1..600_000) } else { rng.gen_range(1..600_000) } });
        }
        wall.sort_by_key(|w| w.at_ms);
        serde_json::to_value(Scenario { base_ms: rng.gen_range(5_000_000_000u64..60_000_000_000), node, events, wall }).unwrap()
    }
    fn isolate(&self, scenario: &Value) -> bool {
        scenario.get("real_node").is_some()
    }
    fn execute(&self, scenario: &Value) -> Outcome {
        if let Some(r) = scenario.get("real_node") {
            return execute_real_node(r);
        }
        let sc: Scenario = match serde_json::from_value(scenario.clone()) {
            Ok(s) => s,
            Err(e) => return Outcome::invalid(format!("bad scenario: {e}")),
        };
        let mut out = Outcome::default();
        let rt = new_runtime();
        let wall = Rc::new(VirtualWall::install(sc.base_ms));
        let seq = Rc::new(Cell::new(0u64));
        let recs: Rc<RefCell<Vec<Rec>>> = Rc::new(RefCell::new(Vec::new()));
        let abandoned: Rc<Cell<u64>> = Rc::new(Cell::new(0));
        let node = sc.node;
        let stuck = Rc::new(Cell::new(false));
        rt.block_on(async {
            let clock = Clock::new(node);
            let local = tokio::task::LocalSet::new();
            {
                let (w, evs) = (wall.clone(), sc.wall.clone());
                local.spawn_local(async move {
                    let start = tokio::time::Instant::now();
                    for e in evs {
                        tokio::time::sleep_until(start + Duration::from_millis(e.at_ms)).await;
                        w.extra_ms.fetch_add(e.jump_ms, std::sync::atomic::Ordering::SeqCst);
                    }
                });
            }
            let start = tokio::time::Instant::now();
            for (ti, steps) in sc.events.iter().enumerate() {
                let (clock, steps, seq, recs, wall, abandoned) = (clock.clone(), steps.clone(), seq.clone(), recs.clone(), wall.clone(), abandoned.clone());
                local.spawn_local(async move {
                    for st in steps {
                        if st.delay_ms > 0 {
                            tokio::time::sleep(Duration::from_millis(st.delay_ms)).await;
                        } else {
                            tokio::task::yield_now().await;
                        }
                        let next = |s: &Rc<Cell<u64>>| {
                            s.set(s.get() + 1);
                            s.get()
                        };
                        if std::env::var_os("DCSIM_DEBUG").is_some() {
                            eprintln!("task {ti} step {:?} at {:?}", st.reg, tokio::time::Instant::now());
                        }
                        match st.reg {
                            None if st.abandon => {
                                let inv = next(&seq);
                                if let Some(ts) = crate::framework::GiveUpAfterPolls::new(clock.get_time(), 1).await {
                                    let ret = next(&seq);
                                    let vt_ret = tokio::time::Instant::now().saturating_duration_since(start).as_millis() as u64;
                                    recs.borrow_mut().push(Rec::Got { task: ti, inv, ret, ts, vt_ret });
                                } else {
                                    abandoned.set(abandoned.get() + 1);
                                }
                            },
                            None => {
                                let inv = next(&seq);
                                let ts = clock.get_time().await;
                                if std::env::var_os("DCSIM_DEBUG").is_some() {
                                    eprintln!("task {ti} got {ts}");
                                }
                                let ret = next(&seq);
                                let vt_ret = tokio::time::Instant::now().saturating_duration_since(start).as_millis() as u64;
                                recs.borrow_mut().push(Rec::Got { task: ti, inv, ret, ts, vt_ret });
                            },
                            Some((off, c, n)) if st.flood > 0 => {
                                let w0 = wall.now_ms() as i64;
                                for j in 0..st.flood as i64 {
                                    let vt_inv = tokio::time::Instant::now().saturating_duration_since(start).as_millis() as u64;
                                    let t = ((w0 + off + j * 4).max(0) as u64) / 4 * 4;
                                    let r = HLCTimestamp::new(Duration::from_millis(t), c, n);
                                    let inv = next(&seq);
                                    clock.register_ts(r).await;
                                    let ret = next(&seq);
                                    recs.borrow_mut().push(Rec::Reg { inv, ret, ts: r, vt_inv });
                                }
                            },
                            Some((off, c, n)) => {
                                let w_inv = wall.now_ms() as i64;
                                let vt_inv = tokio::time::Instant::now().saturating_duration_since(start).as_millis() as u64;
                                let t = ((w_inv + off).max(0) as u64) / 4 * 4;
                                let r = HLCTimestamp::new(Duration::from_millis(t), c, n);
                                let inv = next(&seq);
                                clock.register_ts(r).await;
                                // register_ts only enqueues; a following get_time on the same
                                // channel is ordered behind it, which is what the statement needs
                                let ret = next(&seq);
                                recs.borrow_mut().push(Rec::Reg { inv, ret, ts: r, vt_inv });
                            },
                        }
                    }
                });
            }
            // virtual-time guard: a caller that is never answered must not hang the run
            if tokio::time::timeout(Duration::from_secs(7200), local).await.is_err() {
                stuck.set(true);
            }
        });
        drop(rt);
        if stuck.get() {
            out.violate("C11/caller-never-answered", "a get_time / register_ts call was still unanswered after two virtual hours");
        }
        let recs = recs.borrow().clone();
        out.fault_n("get_time_abandoned_by_its_caller", abandoned.get());
        let mut gots: Vec<(usize, u64, u64, HLCTimestamp, u64)> = recs.iter().filter_map(|r| if let Rec::Got { task, inv, ret, ts, vt_ret } = r { Some((*task, *inv, *ret, *ts, *vt_ret)) } else { None }).collect();
        gots.sort_by_key(|g| g.2);
        let mut tr = Fnv::new();
        for g in &gots {
            tr.u64(g.0 as u64).u64(g.3.as_u64());
        }
        // pairwise distinct
        let mut seen = std::collections::BTreeMap::new();
        for g in &gots {
            if let Some(prev) = seen.insert(g.3.as_u64(), g.0) {
                out.violate("C11/duplicate-timestamp", format!("tasks {prev} and {} both received {}", g.0, g.3));
            }
            if g.3.node() != sc.node {
                out.violate("C11/wrong-node-id", format!("task {} received {} from the clock of node {}", g.0, g.3, sc.node));
            }
        }
        // per task strictly increasing (in that task's own issue order)
        for ti in 0..sc.events.len() {
            let mine: Vec<_> = { let mut v: Vec<_> = gots.iter().filter(|g| g.0 == ti).collect(); v.sort_by_key(|g| g.1); v };
            for w in mine.windows(2) {
                if w[1].3 <= w[0].3 {
                    out.violate("C11/task-sees-non-increasing-timestamps", format!("task {ti} received {} and then {}", w[0].3, w[1].3));
                }
            }
        }
        // across tasks: a request invoked after another returned must be greater (the actor serialises)
        for a in &gots {
            for b in &gots {
                if b.1 > a.2 && b.3 <= a.3 {
                    out.violate("C11/later-request-got-smaller-timestamp", format!("a get_time invoked after {} was returned got {}", a.3, b.3));
                }
            }
        }
        // causality with registered remote stamps
        let mut regs = 0;
        for r in &recs {
            if let Rec::Reg { ret, ts, vt_inv, .. } = r {
                regs += 1;
                if ts.node() == sc.node {
                    out.probe("register_own_node_id_ignored");
                    continue;
                }
                let t = ts.datacake_timestamp().as_millis() as i64;
                // wall clock (datacake ms) at virtual time vt, and its minimum over an interval:
                // the actor handles the registration at some unknown instant of that interval
                let wall_at = |vt: u64| -> i64 { sc.base_ms as i64 + vt as i64 + sc.wall.iter().filter(|w| w.at_ms <= vt).map(|w| w.jump_ms).sum::<i64>() };
                let min_wall = |a: u64, b: u64| -> i64 {
                    let mut m = wall_at(a);
                    for w in &sc.wall {
                        if w.at_ms > a && w.at_ms <= b + 1 {
                            m = m.min(wall_at(w.at_ms));
                        }
                    }
                    m
                };
                for g in &gots {
                    if g.1 > *ret && g.3 <= *ts {
                        let lo = min_wall(*vt_inv, g.4);
                        if t - (lo / 4 * 4) > DRIFT_MS - 8 {
                            out.probe("register_beyond_drift_exempt");
                            continue;
                        }
                        out.violate(
                            "C11/timestamp-not-greater-than-registered-remote",
                            format!("register_ts({}) returned (seq {ret}), a get_time invoked later (seq {}) got {}", ts, g.1, g.3),
                        );
                    }
                }
            }
        }
        for w in &sc.wall {
            out.fault(if w.jump_ms < 0 { "wall_clock_backwards_jump" } else { "wall_clock_forward_jump" });
        }
        let overlap = gots.iter().any(|a| gots.iter().any(|b| a.0 != b.0 && a.1 < b.2 && b.1 < a.2));
        if overlap {
            out.fault("overlapping_callers");
        }
        out.nontrivial = overlap && regs > 0;
        out.trace_hash = tr.finish();
        out.signature = tr.finish();
        out.state_fp = gots.last().map(|g| g.3.as_u64()).unwrap_or(0);
        out.sim_ms = 100;
        out
    }
    fn shrink(&self, sc: &Value) -> Vec<Value> {
        let mut c = Vec::new();
        if let Some(tasks) = sc["events"].as_array() {
            if tasks.len() > 1 {
                for i in 0..tasks.len() {
                    let mut v = sc.clone();
                    v["events"].as_array_mut().unwrap().remove(i);
                    c.push(v);
                }
            }
            for (ti, t) in tasks.iter().enumerate() {
                if let Some(steps) = t.as_array() {
                    for si in (0..steps.len()).rev() {
                        let mut v = sc.clone();
                        v["events"][ti].as_array_mut().unwrap().remove(si);
                        c.push(v);
                    }
                }
            }
        }
        if let Some(w) = sc["wall"].as_array() {
            for i in 0..w.len() {
                let mut v = sc.clone();
                v["wall"].as_array_mut().unwrap().remove(i);
                c.push(v);
            }
        }
        c
    }
}
