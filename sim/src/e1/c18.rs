//! C18 — a keyspace has one state, even when first used by many tasks at once.

use std::cell::RefCell;
use std::collections::BTreeMap;
use std::marker::PhantomData;
use std::rc::Rc;
use std::time::Duration;

use datacake_crdt::OrSWotSet;
use datacake_eventual_consistency::verif as ecv;
use datacake_eventual_consistency::{Document, DocumentMetadata};
use datacake_rpc::{Handler, Request};
use rand::Rng;
use serde::{Deserialize, Serialize};
use serde_json::Value;

use super::requests::*;
use super::*;
use crate::framework::*;

#[derive(Serialize, Deserialize, Clone, Debug)]
pub struct Caller {
    /// "write" (what ReplicatedStoreHandle::put/del does: get_or_create + Set/Del, source 0),
    /// "replicated" (incoming PutPayload/RemovePayload through the ConsistencyService handler),
    /// "repair" (what the poller does: get_or_create + Diff, then MultiSet through source 1),
    /// "get_state" (incoming GetState through the ReplicationService handler, no mutation)
    pub route: String,
    pub delay_ms: u64,
    pub item: Item,
    pub del: bool,
    /// which of the scenario's fresh keyspace names this caller uses (0 = the first)
    #[serde(default)]
    pub name_ix: u8,
    /// the caller gives up (its future is dropped) when it has been left pending this many times
    #[serde(default)]
    pub give_up_after_polls: Option<u32>,
}

#[derive(Serialize, Deserialize, Clone, Debug)]
pub struct Scenario {
    pub base_ms: u64,
    pub name: String,
    pub events: Vec<Caller>,
    /// delays (ms) handed out, in order, at the cooperative point between lookup and insert
    pub jitter_ms: Vec<u64>,
    pub storage_latency_ms: u64,
    /// a keyspace created beforehand by a single task (control: must never matter)
    pub precreate: bool,
    /// hours that go by after the callers (the group's periodic purge pass runs on the keyspace)
    #[serde(default)]
    pub idle_hours: u8,
    /// the first purge pass runs into a remove_tombstones failure
    #[serde(default)]
    pub purge_fails: bool,
    /// after the concurrent callers, one more write per keyspace name, sequentially (a keyspace
    /// whose first use was abandoned half-way is used again)
    #[serde(default)]
    pub late_writes: bool,
    /// the node starts on a store that already knows the scenario's keyspace names (a restart):
    /// 0 = empty store; 1 = live documents; 2 = tombstones only (every document was deleted);
    /// 3 = listed by the store but without any row; 4 = documents and tombstones.
    /// The preloaded ids lie outside the callers' id range and carry older timestamps.
    #[serde(default)]
    pub preloaded: u8,
}

fn name_of(base: &str, ix: u8) -> String {
    if ix == 0 {
        base.to_string()
    } else {
        format!("{base}-{ix}")
    }
}

pub struct C18;

impl Check for C18 {
    fn id(&self) -> &'static str {
        "C18"
    }
    fn title(&self) -> &'static str {
        "A keyspace has one state, even when first used by many tasks at once"
    }
    fn engine(&self) -> &'static str {
        "E1 single-node engine: 1-6 caller tasks first-use one keyspace name concurrently through the real write path, ConsistencyService / ReplicationService handlers and the repair path; seeded start offsets, storage latency and a cooperative delay between lookup and insert decide the interleaving"
    }
    fn rule(&self) -> &'static str {
        "Real-cluster arm (1 case in 127): 2-4 complete nodes built with the public API on slow stores, a node stopped and started again while its peers keep writing; at the final quiescent point every node's served keyspace state must list exactly what its store holds (an operation in the store but not in the served state is an accepted operation applied to another instance). Cases: 1-6 callers with seeded start offsets 0-3 ms, each using a fresh keyspace name (a third of the cases: one of two or three different fresh names) for the first time through one of four routes (local write, incoming replicated write, repair Diff+MultiSet, incoming GetState) and issuing one mutation with a unique timestamp; optional storage latency and seeded delays at the lookup/insert gap (hook jitter site group.get_or_create). A quarter of the cases start the node on a store that already knows the names (live documents, tombstones only, a listed keyspace without rows, or both kinds) - the first use after a restart. Oracle at quiescence: the mailbox a later lookup returns serialises a set in which every acknowledged mutation is visible (its id is live/tombstoned at >= its timestamp), set == store (C02 oracle), and a mutation sent through any mailbox handed out earlier is visible through the current one. In a quarter of the cases half of the callers give up (their future is dropped) when they have been left pending 1-9 times, i.e. at any await point of the route, and every name is then written once more; the node's answer to a peer's poll (PollKeyspace) must list every keyspace that holds an acknowledged operation. Non-trivial = >= 2 callers. Distinct = hash of (routes, offsets, jitter, final set)."
    }
    fn assumptions(&self) -> Vec<String> {
        vec!["single OS thread: interleavings are those of await points, chosen by seeded virtual delays; real multi-threaded schedules are not explored".into()]
    }
    fn components(&self) -> Vec<(&'static str, &'static str)> {
        vec![
            ("KeyspaceGroup::get_or_create_keyspace, keyspace actors, ConsistencyService + ReplicationService handlers, Clock", "real"),
            ("Storage", "SimStorage (harness)"),
            ("real-cluster arm (1 case in 127): DatacakeNodeBuilder::connect, EventuallyConsistentStoreExtension / EventuallyConsistentStore::create (start-up order, state loading), gossip membership, full replication paths", "real, on the simulated network"),
            ("ReplicatedStoreHandle::put / poller get_keyspace_diff", "their keyspace-related statements re-issued by the harness (get_or_create_keyspace + the same actor messages)"),
        ]
    }
    fn budget(&self, tier: Tier) -> Budget {
        match tier {
            Tier::Quick => Budget { wall_secs: 60, max_cases: 400_000, checkpoint_every: 64, workers: 16 },
            Tier::Thorough => Budget { wall_secs: 600, max_cases: 30_000_000, checkpoint_every: 64, workers: 16 },
        }
    }
    fn generate(&self, seed: u64, idx: u64, _tier: Tier) -> Value {
        let mut rng = rng_from(case_seed(seed, idx));
        // real-cluster arm: complete nodes built with the public API (the unmodified store
        // start-up included), restarted under traffic on slow stores
        if arm_split(idx, 127).is_ok() {
            let mut sc = crate::e2::c01::gen_real_scenario(&mut rng);
            for n in sc.cfg.nodes.iter_mut() {
                n.storage_latency_max_ms = n.storage_latency_max_ms.max(rng.gen_range(5..60));
                n.storage_scan_latency_max_ms = n.storage_scan_latency_max_ms.max(rng.gen_range(20..200));
                n.storage_faults.clear();
            }
            // one more stop/start of a node while its peers keep writing
            let ids: Vec<u8> = sc.cfg.nodes.iter().map(|n| n.id).collect();
            let last = sc.events.iter().map(|e| e.t()).max().unwrap_or(1_000);
            let victim = ids[rng.gen_range(0..ids.len())];
            let has_crash = sc.events.iter().any(|e| matches!(e, crate::e2::c01::Ev::Crash { .. }));
            if !has_crash {
                let t = rng.gen_range(last / 3..last.max(3));
                sc.events.push(crate::e2::c01::Ev::Crash { t, node: victim });
                sc.events.push(crate::e2::c01::Ev::Restart { t: t + rng.gen_range(200..3_000), node: victim });
                let ks = "ks0".to_string();
                for i in 0..rng.gen_range(3..10u64) {
                    let w = ids[rng.gen_range(0..ids.len())];
                    sc.events.push(crate::e2::c01::Ev::Op { t: t + 150 + i * rng.gen_range(20..400), node: w, spec: crate::e2::OpSpec { kind: "put".into(), ks: ks.clone(), ids: vec![rng.gen_range(0..6)], level: "None".into(), dup: false, empty: false } });
                }
                sc.events.sort_by_key(|e| e.t());
            }
            return serde_json::json!({ "cluster": sc });
        }
        let base_ms = rng.gen_range(1_000_000_000u64..60_000_000_000) / 4 * 4;
        let n = rng.gen_range(1..=6);
        let ids = rng.gen_range(1..=6u64);
        let mut events = Vec::new();
        // a third of the cases: the callers first-use two or three DIFFERENT fresh names at once
        let names = if rng.gen_bool(0.33) { rng.gen_range(2..=3u8) } else { 1 };
        // a quarter of the cases: some callers give up half-way
        let quitters = rng.gen_bool(0.25);
        for i in 0..n {
            let route = ["write", "write", "replicated", "repair", "get_state"][rng.gen_range(0..5)];
            events.push(Caller {
                route: route.to_string(),
                delay_ms: if rng.gen_bool(0.6) { 0 } else { rng.gen_range(0..4) },
                item: Item { id: rng.gen_range(0..ids), t: base_ms - 40_000 + 4 * (i as u64 * 50 + rng.gen_range(0..50)), c: 0, node: rng.gen_range(1..=3) },
                del: rng.gen_bool(0.25),
                name_ix: if names > 1 { rng.gen_range(0..names) } else { 0 },
                give_up_after_polls: if quitters && rng.gen_bool(0.5) { Some(rng.gen_range(1..=9)) } else { None },
            });
        }
        let jitter_ms = if rng.gen_bool(0.5) { (0..n).map(|_| rng.gen_range(0..5)).collect() } else { vec![] };
        serde_json::to_value(Scenario {
            base_ms,
            name: "fresh".into(),
            events,
            jitter_ms,
            storage_latency_ms: if rng.gen_bool(0.3) { rng.gen_range(1..4) } else { 0 },
            precreate: rng.gen_bool(0.1),
            idle_hours: if rng.gen_bool(0.15) { rng.gen_range(1..=2) } else { 0 },
            purge_fails: rng.gen_bool(0.6),
            late_writes: quitters || rng.gen_bool(0.2),
            preloaded: if rng.gen_bool(0.25) { rng.gen_range(1..=4) } else { 0 },
        })
        .unwrap()
    }
    fn isolate(&self, scenario: &Value) -> bool {
        scenario.get("cluster").is_some()
    }
    fn execute(&self, scenario: &Value) -> Outcome {
        if let Some(c) = scenario.get("cluster") {
            let sc: crate::e2::c01::Scenario = match serde_json::from_value(c.clone()) {
                Ok(s) => s,
                Err(e) => return Outcome::invalid(format!("bad cluster scenario: {e}")),
            };
            return match crate::e2::c01::run_cluster(&sc, "C18") {
                Ok(mut r) => {
                    // an accepted operation (it is in the node's store) missing from the keyspace
                    // state the node serves to its peers: the trace of a second instance
                    for (n, diffs) in r.set_store_diffs.clone() {
                        if !diffs.is_empty() {
                            r.out.violate("C18/real-cluster/accepted-operation-missing-from-served-state", format!("node {n}: {}", diffs.join("; ")));
                        }
                    }
                    r.out.violations.retain(|v| v.class.starts_with("C18/real-cluster/") || v.class.contains("/panic@"));
                    r.out.probe("real_cluster_arm_case");
                    r.out.nontrivial = r.issued.len() >= 2;
                    r.out
                },
                Err(e) => Outcome::invalid(e),
            };
        }
        let sc: Scenario = match serde_json::from_value(scenario.clone()) {
            Ok(s) => s,
            Err(e) => return Outcome::invalid(format!("bad scenario: {e}")),
        };
        let mut out = Outcome::default();
        let rt = new_runtime();
        let wall = VirtualWall::install(sc.base_ms);
        let storage = SimStorage::default();
        {
            let mut st = storage.st.lock();
            st.latency_max_ms = sc.storage_latency_ms;
            st.latency_seed = 7;
        }
        if sc.preloaded > 0 {
            // what an earlier incarnation of the node left behind
            let mut st = storage.st.lock();
            let names: std::collections::BTreeSet<String> = sc.events.iter().map(|c| name_of(&sc.name, c.name_ix)).collect();
            for name in names {
                st.keyspaces.push(name.clone());
                let rows = st.rows.entry(name).or_default();
                let old = |k: u64| datacake_crdt::HLCTimestamp::new(Duration::from_millis(sc.base_ms - 900_000 + 4 * k), 0, 2);
                for k in 0..3u64 {
                    let live = match sc.preloaded {
                        1 => true,
                        2 => false,
                        3 => continue,
                        _ => k % 2 == 0,
                    };
                    rows.insert(1_000 + k, Row { ts: old(k), data: if live { Some(format!("old{k}").into_bytes()) } else { None } });
                }
            }
            out.fault("node_started_on_a_store_that_knows_the_keyspace");
        }
        let jit = Rc::new(RefCell::new(sc.jitter_ms.clone().into_iter()));
        let fired = Rc::new(RefCell::new(0u64));
        let (j2, f2) = (jit.clone(), fired.clone());
        datacake_crdt::verif::set_jitter(Some(Box::new(move |site| {
            if site != "group.get_or_create" {
                return None;
            }
            let d = j2.borrow_mut().next()?;
            if d == 0 {
                return None;
            }
            *f2.borrow_mut() += 1;
            Some(Duration::from_millis(d))
        })));
        let st2 = storage.clone();
        let mut sig = Fnv::new();
        let mut gave_up_total = 0u64;
        let res: Result<(), String> = rt.block_on(async {
            let node = Rc::new(Node::boot(st2).await?);
            let repl = Rc::new(ecv::ReplicationService::new(node.group.clone()));
            if sc.precreate {
                let _ = node.group.get_or_create_keyspace(&sc.name).await;
            }
            let local = tokio::task::LocalSet::new();
            // (caller index, acknowledged?, mailbox handed out)
            let results: Rc<RefCell<Vec<(usize, bool, Option<puppet::ActorMailbox<ecv::KeyspaceActor<SimStorage>>>)>>> = Rc::new(RefCell::new(Vec::new()));
            let gave_up: Rc<RefCell<u64>> = Rc::new(RefCell::new(0));
            for (i, c) in sc.events.iter().enumerate() {
                let (node, repl, c, name, results, gave_up) = (node.clone(), repl.clone(), c.clone(), name_of(&sc.name, c.name_ix), results.clone(), gave_up.clone());
                local.spawn_local(async move {
                    if c.delay_ms > 0 {
                        tokio::time::sleep(Duration::from_millis(c.delay_ms)).await;
                    }
                    let body = async {
                    let doc = Document::new(c.item.id, c.item.ts(), format!("caller{i}").into_bytes());
                    let meta = DocumentMetadata::new(c.item.id, c.item.ts());
                    let msg_ts = node.clock.get_time().await;
                    let (acked, mb) = match c.route.as_str() {
                        "write" => {
                            let mb = node.group.get_or_create_keyspace(&name).await;
                            let ok = if c.del {
                                mb.send(ecv::Del { source: 0, doc: meta, _marker: PhantomData }).await.is_ok()
                            } else {
                                mb.send(ecv::Set { source: 0, doc, ctx: None, _marker: PhantomData }).await.is_ok()
                            };
                            (ok, Some(mb))
                        },
                        "replicated" => {
                            let ok = if c.del {
                                let req = Request::using_owned(ecv::RemovePayload { keyspace: name.clone(), document: meta, timestamp: msg_ts }).await;
                                Handler::<ecv::RemovePayload>::on_message(node.service.as_ref(), req).await.is_ok()
                            } else {
                                let req = Request::using_owned(ecv::PutPayload { keyspace: name.clone(), ctx: None, document: doc, timestamp: msg_ts }).await;
                                Handler::<ecv::PutPayload>::on_message(node.service.as_ref(), req).await.is_ok()
                            };
                            (ok, None)
                        },
                        "repair" => {
                            let mb = node.group.get_or_create_keyspace(&name).await;
                            let _ = mb.send(ecv::Diff(OrSWotSet::default())).await;
                            let ok = if c.del {
                                mb.send(ecv::Del { source: 1, doc: meta, _marker: PhantomData }).await.is_ok()
                            } else {
                                mb.send(ecv::MultiSet { source: 1, docs: [doc].into_iter().collect(), ctx: None, _marker: PhantomData }).await.is_ok()
                            };
                            (ok, Some(mb))
                        },
                        _ => {
                            let req = Request::using_owned(ecv::GetState { keyspace: name.clone(), timestamp: msg_ts }).await;
                            let _ = Handler::<ecv::GetState>::on_message(repl.as_ref(), req).await;
                            (false, None)
                        },
                    };
                    (acked, mb)
                    };
                    let done = match c.give_up_after_polls {
                        Some(k) => GiveUpAfterPolls::new(body, k).await,
                        None => Some(body.await),
                    };
                    match done {
                        Some((acked, mb)) => results.borrow_mut().push((i, acked, mb)),
                        None => {
                            // the caller gave up: nothing was acknowledged to it
                            *gave_up.borrow_mut() += 1;
                            results.borrow_mut().push((i, false, None));
                        },
                    }
                });
            }
            if tokio::time::timeout(Duration::from_secs(7200), local).await.is_err() {
                return Err("harness: a caller was never answered".to_string());
            }
            let mut results = results.borrow().clone();
            results.sort_by_key(|r| r.0);
            gave_up_total = *gave_up.borrow();
            let names: std::collections::BTreeSet<String> = sc.events.iter().map(|c| name_of(&sc.name, c.name_ix)).chain(std::iter::once(sc.name.clone())).collect();
            // one more write per name, one after the other, through the local write path
            let mut late: Vec<(String, u64, datacake_crdt::HLCTimestamp)> = Vec::new();
            if sc.late_writes {
                for (k, name) in names.iter().enumerate() {
                    let ts = node.clock.get_time().await;
                    let id = 2_000_000 + k as u64;
                    let mb = node.group.get_or_create_keyspace(name).await;
                    if mb.send(ecv::Set { source: 0, doc: Document::new(id, ts, b"late".to_vec()), ctx: None, _marker: PhantomData }).await.is_ok() {
                        late.push((name.clone(), id, ts));
                    }
                }
            }
            // hours go by: the periodic purge pass visits the keyspace, once into a storage failure
            for h in 0..sc.idle_hours {
                if sc.purge_fails && h == 0 {
                    let mut st = node.storage.st.lock();
                    let next = st.mutating_calls + 1;
                    st.faults.insert(next, crate::e1::FaultKind::FailAfter(0));
                }
                tokio::time::sleep(Duration::from_secs(3_660)).await;
            }

            let named: std::collections::BTreeSet<String> = names.clone();
            let mut missing = Vec::new();
            let mut with_accepted: std::collections::BTreeSet<String> = late.iter().map(|l| l.0.clone()).collect();
            for name in &names {
                let (live, dead) = node.set_of(name).await?;
                let view: BTreeMap<u64, datacake_crdt::HLCTimestamp> = live.iter().chain(dead.iter()).map(|(k, t)| (*k, *t)).collect();
                for (i, acked, _) in &results {
                    let c = &sc.events[*i];
                    if name_of(&sc.name, c.name_ix) != *name {
                        continue;
                    }
                    sig.str(&c.route).u64(c.delay_ms).u64(*acked as u64).u64(c.name_ix as u64).u64(c.give_up_after_polls.unwrap_or(0) as u64);
                    if *acked && c.route != "get_state" {
                        with_accepted.insert(name.clone());
                        match view.get(&c.item.id) {
                            Some(t) if *t >= c.item.ts() => {},
                            other => missing.push(format!("caller {i} ({}) {} id {} at {} in '{name}' -> state has {:?}", c.route, if c.del { "delete" } else { "put" }, c.item.id, fmt_ts(c.item.ts()), other.map(|t| fmt_ts(*t)))),
                        }
                    }
                }
                for (n, id, ts) in &late {
                    if n == name && !matches!(view.get(id), Some(t) if t >= ts) {
                        missing.push(format!("late write id {id} at {} in '{name}' -> state has {:?}", fmt_ts(*ts), view.get(id).map(|t| fmt_ts(*t))));
                    }
                }
            }
            if !missing.is_empty() {
                out.violate(
                    "C18/acknowledged-operation-missing-from-keyspace-state",
                    format!("{} acknowledged operation(s) are not in the set peers synchronise against: {}", missing.len(), missing.join("; ")),
                );
            }
            // what peers are told when they poll: a keyspace that holds accepted operations must be
            // advertised, or nobody ever synchronises against it
            {
                let ts = node.clock.get_time().await;
                let req = Request::using_owned(ecv::PollKeyspace(ts)).await;
                match Handler::<ecv::PollKeyspace>::on_message(repl.as_ref(), req).await {
                    Ok(info) => {
                        let hidden: Vec<&String> = with_accepted.iter().filter(|n| !info.keyspace_timestamps.contains_key(n.as_str())).collect();
                        if !hidden.is_empty() {
                            out.violate(
                                "C18/keyspace-with-accepted-operations-not-advertised-to-peers",
                                format!("keyspace(s) {:?} hold acknowledged operations but the node's answer to a peer's poll lists only {:?}", hidden, info.keyspace_timestamps.keys().collect::<Vec<_>>()),
                            );
                        }
                    },
                    Err(e) => return Err(format!("harness: poll failed: {}", e.message)),
                }
            }
            let fp = check_agreement(&node, &named, "after concurrent first use", "C18/set-store", &mut out).await;
            out.state_fp = fp;
            // one state for the life of the node: every mailbox handed out reaches the same set
            let mut probe_id = 1_000_000u64;
            for (i, _, mb) in &results {
                if let Some(mb) = mb {
                    let name = name_of(&sc.name, sc.events[*i].name_ix);
                    let current = node.group.get_or_create_keyspace(&name).await;
                    probe_id += 1;
                    let ts = node.clock.get_time().await;
                    let d = Document::new(probe_id, ts, b"probe".to_vec());
                    let ok = mb.send(ecv::Set { source: 0, doc: d, ctx: None, _marker: PhantomData }).await.is_ok();
                    let bytes = current.send(ecv::Serialize).await.map_err(|e| e.to_string())?;
                    let set = decode_set(&bytes)?;
                    if ok && set.get(&probe_id).is_none() {
                        out.violate(
                            "C18/second-keyspace-instance",
                            format!("a write acknowledged through the mailbox handed to caller {i} is invisible through the mailbox a later lookup returns: two instances of keyspace '{}' exist", name),
                        );
                    }
                }
            }
            Ok(())
        });
        drop(rt);
        datacake_crdt::verif::set_jitter(None);
        drop(wall);
        if let Err(e) = res {
            return Outcome::invalid(e);
        }
        out.fault_n("delay_between_lookup_and_insert", *fired.borrow());
        if sc.storage_latency_ms > 0 {
            out.fault("storage_latency");
        }
        out.fault_n("concurrent_first_use", (sc.events.len() > 1 && !sc.precreate) as u64);
        out.fault_n("caller_gave_up_half_way", gave_up_total);
        if sc.events.iter().any(|c| c.name_ix > 0) {
            out.fault("different_fresh_names_at_once");
        }
        out.nontrivial = sc.events.len() >= 2;
        sig.u64(out.state_fp).u64(storage.trace_hash());
        for j in &sc.jitter_ms {
            sig.u64(*j);
        }
        out.signature = sig.finish();
        let mut tr = Fnv::new();
        tr.u64(storage.trace_hash()).u64(out.state_fp).u64(storage.fingerprint());
        out.trace_hash = tr.finish();
        out.sim_ms = 10;
        out
    }
    fn shrink(&self, sc: &Value) -> Vec<Value> {
        if let Some(c) = sc.get("cluster") {
            return crate::e2::c01::shrink_cluster(c).into_iter().map(|v| serde_json::json!({ "cluster": v })).collect();
        }
        let mut c = generic_shrink(sc);
        if sc["jitter_ms"].as_array().map(|a| !a.is_empty()).unwrap_or(false) {
            let mut v = sc.clone();
            v["jitter_ms"] = serde_json::json!([]);
            c.push(v);
        }
        if sc["storage_latency_ms"].as_u64().unwrap_or(0) > 0 {
            let mut v = sc.clone();
            v["storage_latency_ms"] = serde_json::json!(0);
            c.push(v);
        }
        if let Some(ev) = sc["events"].as_array() {
            for i in 0..ev.len() {
                if ev[i]["delay_ms"].as_u64().unwrap_or(0) > 0 {
                    let mut v = sc.clone();
                    v["events"][i]["delay_ms"] = serde_json::json!(0);
                    c.push(v);
                }
                if ev[i]["route"] != "write" {
                    let mut v = sc.clone();
                    v["events"][i]["route"] = serde_json::json!("write");
                    c.push(v);
                }
            }
        }
        c
    }
}
