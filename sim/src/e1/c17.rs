//! C17 — every bundled storage backend behaves like the reference key-value model.

use std::collections::{BTreeMap, BTreeSet};
use std::path::{Path, PathBuf};
use std::sync::atomic::{AtomicU64, Ordering};
use std::time::Duration;

use datacake_crdt::{HLCTimestamp, Key};
use datacake_eventual_consistency::test_utils::MemStore;
use datacake_eventual_consistency::{Document, DocumentMetadata, Storage};
use datacake_lmdb::LmdbStorage;
use datacake_sqlite::SqliteStorage;
use rand::Rng;
use serde::{Deserialize, Serialize};
use serde_json::Value;

use crate::framework::*;

#[derive(Serialize, Deserialize, Clone, Debug)]
pub struct Ts {
    pub secs: u64,
    pub frac: u8,
    pub c: u16,
    pub node: u8,
}
impl Ts {
    fn ts(&self) -> HLCTimestamp {
        HLCTimestamp::new(Duration::from_secs(self.secs) + Duration::from_millis(self.frac as u64 * 4), self.c, self.node)
    }
}

#[derive(Serialize, Deserialize, Clone, Debug)]
pub struct Doc {
    pub id: u64,
    pub ts: Ts,
    /// payload = `len` bytes derived from (id, fill)
    pub len: usize,
    pub fill: u8,
}
impl Doc {
    fn data(&self) -> Vec<u8> {
        (0..self.len).map(|i| (i as u8).wrapping_mul(31).wrapping_add(self.fill).wrapping_add(self.id as u8)).collect()
    }
}

#[derive(Serialize, Deserialize, Clone, Debug)]
#[serde(tag = "call")]
pub enum Call {
    #[serde(rename = "put")]
    Put { ks: String, doc: Doc, with_ctx: bool },
    #[serde(rename = "multi_put")]
    MultiPut { ks: String, docs: Vec<Doc>, with_ctx: bool },
    #[serde(rename = "mark")]
    Mark { ks: String, id: u64, ts: Ts },
    #[serde(rename = "mark_many")]
    MarkMany { ks: String, items: Vec<(u64, Ts)> },
    /// only ids that are tombstones in the model at that moment are passed on (contract)
    #[serde(rename = "remove_tombstones")]
    RemoveTombstones { ks: String, ids: Vec<u64> },
    #[serde(rename = "get")]
    Get { ks: String, id: u64 },
    #[serde(rename = "multi_get")]
    MultiGet { ks: String, ids: Vec<u64> },
    #[serde(rename = "iter_metadata")]
    IterMetadata { ks: String },
    #[serde(rename = "keyspace_list")]
    KeyspaceList,
    /// close the database cleanly and open it again (persistent backends)
    #[serde(rename = "reopen")]
    Reopen,
    /// copy the database files as they are between two calls (kill -9 image) and audit the copy
    #[serde(rename = "kill_copy")]
    KillCopy,
    /// SQLite only: from now on every write of this document id fails inside the database (a
    /// trigger raising ABORT, installed through SqliteStorage::handle()) - the n-th statement of a
    /// batch hitting a constraint, an oversized value or a full disk
    #[serde(rename = "poison")]
    Poison { id: u64 },
    #[serde(rename = "heal")]
    Heal,
}

#[derive(Serialize, Deserialize, Clone, Debug)]
pub struct Scenario {
    /// "sqlite" | "lmdb" | "mem"
    pub backend: String,
    pub events: Vec<Call>,
}

pub struct C17;

#[derive(Clone, Debug, PartialEq)]
struct MRow {
    ts: HLCTimestamp,
    data: Option<Vec<u8>>,
}

#[derive(Default)]
struct Model {
    rows: BTreeMap<String, BTreeMap<u64, MRow>>,
    named: BTreeSet<String>,
    ids: BTreeSet<u64>,
    /// keyspaces whose name the backend refused (LMDB: a database name over 511 bytes); they hold
    /// nothing in the model, and the backend must not list them either
    refused: BTreeSet<String>,
}

static DIR_CTR: AtomicU64 = AtomicU64::new(0);

pub(crate) fn scratch_dir() -> PathBuf {
    let base = if Path::new("/dev/shm").is_dir() { PathBuf::from("/dev/shm") } else { verif_root().join("sim/target/scratch") };
    let p = base.join(format!("dcsim-c17-{}-{}", std::process::id(), DIR_CTR.fetch_add(1, Ordering::SeqCst)));
    let _ = std::fs::remove_dir_all(&p);
    std::fs::create_dir_all(&p).expect("scratch dir");
    p
}

fn copy_dir(from: &Path, to: &Path) -> std::io::Result<()> {
    std::fs::create_dir_all(to)?;
    for e in std::fs::read_dir(from)? {
        let e = e?;
        let p = e.path();
        if p.is_dir() {
            copy_dir(&p, &to.join(e.file_name()))?;
        } else {
            std::fs::copy(&p, to.join(e.file_name()))?;
        }
    }
    Ok(())
}

fn fmt_meta(v: &[(Key, HLCTimestamp, bool)]) -> String {
    let s: Vec<String> = v.iter().map(|(k, t, d)| format!("{k}@{}{}", t, if *d { "†" } else { "" })).collect();
    format!("[{}]", s.join(", "))
}

async fn audit<S: Storage>(s: &S, m: &Model, b: &str, when: &str, out: &mut Outcome) {
    let mut refused: BTreeSet<String> = m.refused.clone();
    for ks in &m.named {
        if m.refused.contains(ks) {
            continue;
        }
        // (a name LMDB refuses may have been named by a read only: the read is refused the same way)
        if b == "lmdb" && ks.len() >= 498 && m.rows.get(ks).map(|r| r.is_empty()).unwrap_or(true) && s.iter_metadata(ks).await.is_err() {
            refused.insert(ks.clone());
            continue;
        }
        let empty = BTreeMap::new();
        let rows = m.rows.get(ks).unwrap_or(&empty);
        match s.iter_metadata(ks).await {
            Ok(it) => {
                let mut got: Vec<(Key, HLCTimestamp, bool)> = it.collect();
                got.sort();
                let mut want: Vec<(Key, HLCTimestamp, bool)> = rows.iter().map(|(k, r)| (*k, r.ts, r.data.is_none())).collect();
                want.sort();
                if got != want {
                    out.violate(format!("C17/{b}/metadata-differs-from-model"), format!("{when}: keyspace {ks}: iter_metadata {} but the model holds {}", fmt_meta(&got), fmt_meta(&want)));
                }
            },
            Err(e) => out.violate(format!("C17/{b}/unexpected-error/iter_metadata"), format!("{when}: keyspace {ks}: {e}")),
        }
        let mut probe: Vec<u64> = m.ids.iter().copied().collect();
        probe.push(424_242);
        for id in &probe {
            match s.get(ks, *id).await {
                Ok(d) => {
                    let want = rows.get(id).and_then(|r| r.data.as_ref().map(|d| (r.ts, d.clone())));
                    let got = d.map(|d| (d.last_updated(), d.data().to_vec()));
                    if got != want {
                        out.violate(
                            format!("C17/{b}/get-differs-from-model"),
                            format!("{when}: keyspace {ks} id {id}: get -> {:?} but the model holds {:?}", got.as_ref().map(|(t, d)| (t.to_string(), d.len())), want.as_ref().map(|(t, d)| (t.to_string(), d.len()))),
                        );
                    }
                },
                Err(e) => out.violate(format!("C17/{b}/unexpected-error/get"), format!("{when}: keyspace {ks} id {id}: {e}")),
            }
        }
        match s.multi_get(ks, probe.clone().into_iter()).await {
            Ok(it) => {
                let mut got: Vec<(u64, HLCTimestamp, Vec<u8>)> = it.map(|d| (d.id(), d.last_updated(), d.data().to_vec())).collect();
                got.sort();
                let mut want: Vec<(u64, HLCTimestamp, Vec<u8>)> = probe.iter().filter_map(|id| rows.get(id).and_then(|r| r.data.as_ref().map(|d| (*id, r.ts, d.clone())))).collect();
                want.sort();
                if got != want {
                    out.violate(
                        format!("C17/{b}/multi_get-differs-from-model"),
                        format!("{when}: keyspace {ks}: multi_get({:?}) -> ids {:?} but the model holds ids {:?}", probe, got.iter().map(|g| g.0).collect::<Vec<_>>(), want.iter().map(|g| g.0).collect::<Vec<_>>()),
                    );
                }
            },
            Err(e) => out.violate(format!("C17/{b}/unexpected-error/multi_get"), format!("{when}: keyspace {ks} ids {:?}: {e}", probe)),
        }
    }
    match s.get_keyspace_list().await {
        Ok(list) => {
            let set: BTreeSet<String> = list.iter().cloned().collect();
            if set.len() != list.len() {
                out.violate(format!("C17/{b}/keyspace-list-has-duplicates"), format!("{when}: {:?}", list));
            }
            let must: BTreeSet<String> = m.rows.iter().filter(|(_, r)| !r.is_empty()).map(|(k, _)| k.clone()).collect();
            if !must.is_subset(&set) {
                out.violate(format!("C17/{b}/keyspace-with-rows-missing-from-list"), format!("{when}: list {:?} lacks {:?}", list, must.difference(&set).collect::<Vec<_>>()));
            }
            if !set.is_subset(&m.named) {
                out.violate(format!("C17/{b}/keyspace-list-names-unknown-keyspace"), format!("{when}: list {:?}, named so far {:?}", list, m.named));
            }
            // a keyspace whose creation failed holds nothing; if the backend lists it all the same,
            // a restart (which loads every listed keyspace) must at least be able to read it
            for ks in set.iter().filter(|k| refused.contains(*k)) {
                match s.iter_metadata(ks).await {
                    Ok(it) => {
                        let n = it.count();
                        if n != 0 {
                            out.violate(format!("C17/{b}/metadata-differs-from-model"), format!("{when}: refused keyspace of {} bytes lists {n} rows", ks.len()));
                        }
                    },
                    Err(e) => out.violate(format!("C17/{b}/listed-keyspace-cannot-be-read"), format!("{when}: the keyspace list names a keyspace ({} bytes) whose creation failed, and iter_metadata on it fails: {e}", ks.len())),
                }
            }
        },
        Err(e) => out.violate(format!("C17/{b}/unexpected-error/get_keyspace_list"), format!("{when}: {e}")),
    }
}

/// Applies one storage call to backend and model. Returns false if the backend failed.
async fn do_call<S: Storage>(s: &S, m: &mut Model, c: &Call, b: &str, i: usize, tolerate_full: bool, out: &mut Outcome, tr: &mut Fnv) -> bool {
    let when = format!("call #{i} {}", call_name(c));
    macro_rules! fail {
        ($name:expr, $e:expr, $ks:expr) => {{
            let msg = format!("{}", $e);
            if b == "lmdb" && $ks.len() >= 498 && m.rows.get($ks).map(|r| r.is_empty()).unwrap_or(true) {
                // "datacake-<name>-meta" exceeds LMDB's 511-byte limit for a database name
                out.fault("keyspace_name_refused");
                m.refused.insert($ks.clone());
                return false;
            }
            if tolerate_full && (msg.contains("MDB_MAP_FULL") || msg.contains("MapFull") || msg.to_lowercase().contains("map") && msg.to_lowercase().contains("full")) {
                out.fault("disk_full_error");
                return false;
            }
            if msg.contains("injected storage fault") {
                out.fault("write_failed_inside_the_database");
                return false;
            }
            out.violate(format!("C17/{b}/unexpected-error/{}", $name), format!("{when}: {msg}"));
            return false;
        }};
    }
    match c {
        Call::Put { ks, doc, with_ctx } => {
            m.named.insert(ks.clone());
            m.ids.insert(doc.id);
            let d = Document::new(doc.id, doc.ts.ts(), doc.data());
            let r = if *with_ctx { s.put_with_ctx(ks, d, None).await } else { s.put(ks, d).await };
            if let Err(e) = r {
                fail!("put", e, ks);
            }
            m.rows.entry(ks.clone()).or_default().insert(doc.id, MRow { ts: doc.ts.ts(), data: Some(doc.data()) });
        },
        Call::MultiPut { ks, docs, with_ctx } => {
            m.named.insert(ks.clone());
            let ds: Vec<Document> = docs.iter().map(|d| Document::new(d.id, d.ts.ts(), d.data())).collect();
            for d in docs {
                m.ids.insert(d.id);
            }
            let r = if *with_ctx { s.multi_put_with_ctx(ks, ds.into_iter(), None).await } else { s.multi_put(ks, ds.into_iter()).await };
            if let Err(e) = r {
                // the bundled backends are transactional: nothing may have been applied
                if !e.successful_doc_ids().is_empty() {
                    out.probe("bulk_error_reports_partial_success");
                    for id in e.successful_doc_ids() {
                        if let Some(d) = docs.iter().find(|d| d.id == *id) {
                            m.rows.entry(ks.clone()).or_default().insert(d.id, MRow { ts: d.ts.ts(), data: Some(d.data()) });
                        }
                    }
                }
                fail!("multi_put", e, ks);
            }
            for d in docs {
                m.rows.entry(ks.clone()).or_default().insert(d.id, MRow { ts: d.ts.ts(), data: Some(d.data()) });
            }
        },
        Call::Mark { ks, id, ts } => {
            m.named.insert(ks.clone());
            m.ids.insert(*id);
            if let Err(e) = s.mark_as_tombstone(ks, *id, ts.ts()).await {
                fail!("mark_as_tombstone", e, ks);
            }
            m.rows.entry(ks.clone()).or_default().insert(*id, MRow { ts: ts.ts(), data: None });
        },
        Call::MarkMany { ks, items } => {
            m.named.insert(ks.clone());
            for (id, _) in items {
                m.ids.insert(*id);
            }
            let it: Vec<DocumentMetadata> = items.iter().map(|(id, ts)| DocumentMetadata::new(*id, ts.ts())).collect();
            if let Err(e) = s.mark_many_as_tombstone(ks, it.into_iter()).await {
                fail!("mark_many_as_tombstone", e, ks);
            }
            for (id, ts) in items {
                m.rows.entry(ks.clone()).or_default().insert(*id, MRow { ts: ts.ts(), data: None });
            }
        },
        Call::RemoveTombstones { ks, ids } => {
            m.named.insert(ks.clone());
            // contract: only tombstones may be named
            let legal: Vec<u64> = ids.iter().copied().filter(|id| m.rows.get(ks).and_then(|r| r.get(id)).map(|r| r.data.is_none()).unwrap_or(false)).collect();
            let legal: Vec<u64> = legal.into_iter().collect::<BTreeSet<_>>().into_iter().collect();
            if let Err(e) = s.remove_tombstones(ks, legal.clone().into_iter()).await {
                fail!("remove_tombstones", e, ks);
            }
            for id in legal {
                m.rows.entry(ks.clone()).or_default().remove(&id);
            }
        },
        Call::Get { ks, id } => {
            m.named.insert(ks.clone());
            match s.get(ks, *id).await {
                Ok(d) => {
                    let want = m.rows.get(ks).and_then(|r| r.get(id)).and_then(|r| r.data.as_ref().map(|d| (r.ts, d.clone())));
                    let got = d.map(|d| (d.last_updated(), d.data().to_vec()));
                    tr.u64(got.is_some() as u64);
                    if got != want {
                        out.violate(format!("C17/{b}/get-differs-from-model"), format!("{when}: keyspace {ks} id {id}: got {:?} want {:?}", got.as_ref().map(|g| (g.0.to_string(), g.1.len())), want.as_ref().map(|g| (g.0.to_string(), g.1.len()))));
                    }
                },
                Err(e) => fail!("get", e, ks),
            }
        },
        Call::MultiGet { ks, ids } => {
            m.named.insert(ks.clone());
            let uniq: Vec<u64> = ids.iter().copied().collect::<BTreeSet<_>>().into_iter().collect();
            match s.multi_get(ks, uniq.clone().into_iter()).await {
                Ok(it) => {
                    let mut got: Vec<(u64, HLCTimestamp, Vec<u8>)> = it.map(|d| (d.id(), d.last_updated(), d.data().to_vec())).collect();
                    got.sort();
                    let mut want: Vec<(u64, HLCTimestamp, Vec<u8>)> = uniq.iter().filter_map(|id| m.rows.get(ks).and_then(|r| r.get(id)).and_then(|r| r.data.as_ref().map(|d| (*id, r.ts, d.clone())))).collect();
                    want.sort();
                    tr.u64(got.len() as u64);
                    if got != want {
                        out.violate(format!("C17/{b}/multi_get-differs-from-model"), format!("{when}: keyspace {ks} ids {:?}: got ids {:?} want ids {:?}", uniq, got.iter().map(|g| g.0).collect::<Vec<_>>(), want.iter().map(|g| g.0).collect::<Vec<_>>()));
                    }
                },
                Err(e) => fail!("multi_get", e, ks),
            }
        },
        Call::IterMetadata { ks } => {
            m.named.insert(ks.clone());
            // compared by the audit below
        },
        Call::KeyspaceList | Call::Reopen | Call::KillCopy | Call::Poison { .. } | Call::Heal => {},
    }
    true
}

fn call_name(c: &Call) -> &'static str {
    match c {
        Call::Put { .. } => "put",
        Call::MultiPut { .. } => "multi_put",
        Call::Mark { .. } => "mark_as_tombstone",
        Call::MarkMany { .. } => "mark_many_as_tombstone",
        Call::RemoveTombstones { .. } => "remove_tombstones",
        Call::Get { .. } => "get",
        Call::MultiGet { .. } => "multi_get",
        Call::IterMetadata { .. } => "iter_metadata",
        Call::KeyspaceList => "get_keyspace_list",
        Call::Reopen => "reopen",
        Call::Poison { .. } => "poison",
        Call::Heal => "heal",
        Call::KillCopy => "kill_copy",
    }
}

#[async_trait::async_trait(?Send)]
pub(crate) trait Opener {
    type S: Storage;
    const NAME: &'static str;
    const PERSISTENT: bool;
    async fn open(dir: &Path) -> Result<Self::S, String>;
    async fn close(s: Self::S);
    /// make every later write of `id` fail inside the database; false = not supported
    async fn poison(_s: &Self::S, _id: u64) -> bool {
        false
    }
    async fn heal(_s: &Self::S) {}
}

pub(crate) struct OSqlite;
#[async_trait::async_trait(?Send)]
impl Opener for OSqlite {
    type S = SqliteStorage;
    const NAME: &'static str = "sqlite";
    const PERSISTENT: bool = true;
    async fn open(dir: &Path) -> Result<SqliteStorage, String> {
        SqliteStorage::open(dir.join("data.db")).await.map_err(|e| e.to_string())
    }
    async fn poison(s: &SqliteStorage, id: u64) -> bool {
        let _ = s.handle().execute("DROP TRIGGER IF EXISTS dcsim_fault;", ()).await;
        s.handle()
            .execute(
                format!("CREATE TRIGGER dcsim_fault BEFORE INSERT ON state_entries WHEN NEW.doc_id = {} BEGIN SELECT RAISE(ABORT, 'injected storage fault'); END;", id as i64),
                (),
            )
            .await
            .is_ok()
    }
    async fn heal(s: &SqliteStorage) {
        let _ = s.handle().execute("DROP TRIGGER IF EXISTS dcsim_fault;", ()).await;
    }
    async fn close(s: SqliteStorage) {
        // make sure the worker has drained: a read after the last write
        let _ = s.get_keyspace_list().await;
        drop(s);
        // the worker thread exits once the channel is gone; give it a moment to close the file
        tokio::time::sleep(Duration::from_millis(2)).await;
    }
}

pub(crate) struct OLmdb;
#[async_trait::async_trait(?Send)]
impl Opener for OLmdb {
    type S = LmdbStorage;
    const NAME: &'static str = "lmdb";
    const PERSISTENT: bool = true;
    async fn open(dir: &Path) -> Result<LmdbStorage, String> {
        let p = dir.join("lmdb");
        std::fs::create_dir_all(&p).map_err(|e| e.to_string())?;
        let r = LmdbStorage::open(p).await.map_err(|e| e.to_string());
        if r.is_ok() {
            LMDB_OPEN.fetch_add(1, Ordering::SeqCst);
        }
        r
    }
    async fn close(s: LmdbStorage) {
        let _ = s.get_keyspace_list().await;
        // heed keeps every opened Env in a process-global table, so a real close needs
        // prepare_for_closing, which closes the environment on whichever thread drops the last
        // clone. LMDB frees a thread's reader slot in a thread-exit destructor that touches the
        // (by then unmapped) lock file if the environment is closed from another thread while
        // the backend's worker thread is still exiting (seen as SIGSEGV in early runs of this
        // harness). So: keep a clone, drop the storage, wait until the worker thread is gone,
        // and only then close.
        // The environment itself is NOT closed: heed keeps every opened Env in a process-global
        // table and a real close needs prepare_for_closing, which unmaps the lock file while the
        // backend's worker thread may still be running its thread-exit destructor (LMDB frees the
        // thread's reader slot there) - seen as rare SIGSEGVs of this harness, not of datacake.
        // Dropping the storage is what an application does; the next open of the same path gets
        // heed's still-open environment, and "a new process opens the files" is emulated by
        // opening a copy of the files (see `reopen_dir`).
        drop(s);
        let _ = tokio::task::spawn_blocking(move || {
            let deadline = std::time::Instant::now() + Duration::from_secs(10);
            while plain_threads() > 1 && std::time::Instant::now() < deadline {
                std::thread::sleep(Duration::from_micros(200));
            }
        })
        .await;
    }
}

/// Number of LMDB environments this process currently has open (each has one worker thread).
static LMDB_OPEN: AtomicU64 = AtomicU64::new(0);

/// Threads of this process that are neither tokio pool threads nor named otherwise: the main
/// thread plus the backends' unnamed worker threads.
fn plain_threads() -> usize {
    let mut n = 0;
    if let Ok(rd) = std::fs::read_dir("/proc/self/task") {
        for e in rd.flatten() {
            if let Ok(c) = std::fs::read_to_string(e.path().join("comm")) {
                if !c.starts_with("tokio") {
                    n += 1;
                }
            }
        }
    }
    n
}

struct OMem;
#[async_trait::async_trait(?Send)]
impl Opener for OMem {
    type S = MemStore;
    const NAME: &'static str = "mem";
    const PERSISTENT: bool = false;
    async fn open(_dir: &Path) -> Result<MemStore, String> {
        Ok(MemStore::default())
    }
    async fn close(_s: MemStore) {}
}

async fn drive<O: Opener>(sc: &Scenario, out: &mut Outcome, tr: &mut Fnv) -> Result<(), String> {
    let root = scratch_dir();
    let mut dir = root.clone();
    let b = O::NAME;
    let mut model = Model::default();
    let mut s = Some(O::open(&dir).await?);
    let tolerate_full = b == "lmdb" && sc.events.iter().any(|c| matches!(c, Call::Put { doc, .. } if doc.len > 400_000) || matches!(c, Call::MultiPut { docs, .. } if docs.iter().any(|d| d.len > 400_000)));
    let mut res = Ok(());
    for (i, c) in sc.events.iter().enumerate() {
        tr.str(call_name(c));
        match c {
            Call::Reopen => {
                if O::PERSISTENT {
                    O::close(s.take().unwrap()).await;
                    // LMDB: alternately the application's own way (open the same path again in
                    // this process) and "a new process opens the files" (a copy of the files)
                    if b == "lmdb" && i % 2 == 1 {
                        let next = dir.join(format!("gen{i}"));
                        let (src, dst) = (dir.join("lmdb"), next.join("lmdb"));
                        std::fs::create_dir_all(&dst).map_err(|e| e.to_string())?;
                        for e in std::fs::read_dir(&src).map_err(|e| e.to_string())? {
                            let e = e.map_err(|e| e.to_string())?;
                            if e.path().is_file() {
                                std::fs::copy(e.path(), dst.join(e.file_name())).map_err(|e| e.to_string())?;
                            }
                        }
                        dir = next;
                    }
                    match O::open(&dir).await {
                        Ok(n) => s = Some(n),
                        Err(e) => {
                            out.violate(format!("C17/{b}/reopen-failed"), format!("call #{i}: reopening the database failed: {e}"));
                            break;
                        },
                    }
                    out.fault("clean_close_and_reopen");
                    audit(s.as_ref().unwrap(), &model, b, &format!("after reopen at #{i}"), out).await;
                }
            },
            Call::KillCopy => {
                if O::PERSISTENT {
                    // make sure the worker thread is idle (the previous call returned), then image the files
                    let copy = dir.join(format!("copy{i}"));
                    let src = if b == "sqlite" { dir.clone() } else { dir.join("lmdb") };
                    let dst = if b == "sqlite" { copy.clone() } else { copy.join("lmdb") };
                    std::fs::create_dir_all(&dst).map_err(|e| e.to_string())?;
                    for e in std::fs::read_dir(&src).map_err(|e| e.to_string())? {
                        let e = e.map_err(|e| e.to_string())?;
                        if e.path().is_file() {
                            std::fs::copy(e.path(), dst.join(e.file_name())).map_err(|e| e.to_string())?;
                        }
                    }
                    let _ = copy_dir;
                    match O::open(&copy).await {
                        Ok(cs) => {
                            out.fault("kill9_image_opened");
                            audit(&cs, &model, b, &format!("kill -9 image taken before call #{i}"), out).await;
                            O::close(cs).await;
                        },
                        Err(e) => out.violate(format!("C17/{b}/kill9-image-does-not-open"), format!("image before call #{i}: {e}")),
                    }
                }
            },
            Call::Poison { id } => {
                if O::poison(s.as_ref().unwrap(), *id).await {
                    out.probe("row_failure_trigger_installed");
                }
            },
            Call::Heal => O::heal(s.as_ref().unwrap()).await,
            _ => {
                let ok = do_call(s.as_ref().unwrap(), &mut model, c, b, i, tolerate_full, out, tr).await;
                let _ = ok;
                let mutating = !matches!(c, Call::Get { .. } | Call::MultiGet { .. });
                if mutating {
                    audit(s.as_ref().unwrap(), &model, b, &format!("after call #{i} {}", call_name(c)), out).await;
                }
            },
        }
        if out.violations.len() >= 3 {
            break;
        }
    }
    if let Some(s) = s.take() {
        O::close(s).await;
    } else {
        res = Ok(());
    }
    let _ = std::fs::remove_dir_all(&root);
    // final model fingerprint
    for (ks, rows) in &model.rows {
        tr.str(ks);
        for (k, r) in rows {
            tr.u64(*k).u64(r.ts.as_u64()).u64(r.data.as_ref().map(|d| d.len() as u64 + 1).unwrap_or(0));
        }
    }
    res
}

fn gen_ts(rng: &mut impl Rng) -> Ts {
    Ts {
        secs: match rng.gen_range(0..8) {
            0 => 0,
            1 => (1u64 << 32) - 1,
            2 => rng.gen_range(0..(1u64 << 32)),
            _ => rng.gen_range(20_000_000..200_000_000),
        },
        frac: rng.gen_range(0..250),
        c: match rng.gen_range(0..6) {
            0 => 65535,
            1 => rng.gen_range(0..65535),
            _ => rng.gen_range(0..4),
        },
        node: if rng.gen_bool(0.2) { 255 } else { rng.gen_range(0..=255) },
    }
}

fn gen_id(rng: &mut impl Rng, pool: &[u64]) -> u64 {
    pool[rng.gen_range(0..pool.len())]
}

fn gen_doc(rng: &mut impl Rng, pool: &[u64], big: bool) -> Doc {
    let len = match rng.gen_range(0..12) {
        0 | 1 => 0,
        2 => 1,
        3 if big => rng.gen_range(200_000..1_048_576),
        4 => rng.gen_range(1_000..70_000),
        _ => rng.gen_range(1..200),
    };
    Doc { id: gen_id(rng, pool), ts: gen_ts(rng), len, fill: rng.gen() }
}

impl Check for C17 {
    fn id(&self) -> &'static str {
        "C17"
    }
    fn title(&self) -> &'static str {
        "Every bundled storage backend behaves like the reference key-value model"
    }
    fn engine(&self) -> &'static str {
        "E1 single-node engine: real SqliteStorage (file), LmdbStorage (directory) and MemStore driven call by call next to a map-based reference model; faults: clean close+reopen, kill -9 file image between calls, LMDB map full"
    }
    fn rule(&self) -> &'static str {
        "Cases: 3-40 contract-conforming Storage calls over 1-3 keyspaces and an id pool containing 0, 1, 2^63-1, 2^63, u64::MAX and random ids: put / put_with_ctx / multi_put / mark_as_tombstone / mark_many_as_tombstone (also in keyspaces that hold no document, also for ids never put) / remove_tombstones (only ids that are tombstones at that moment) / get / multi_get / iter_metadata / get_keyspace_list; payloads empty, 1 byte, up to 70 KiB, occasionally up to 1 MiB; timestamps over the whole valid range (seconds 0..2^32-1, fraction 0..249, counter 0..65535, node 0..255); interleaved with clean close+reopen and kill -9 images (files copied between two calls, the copy opened and audited). Oracle after every mutating call and after every reopen/image: iter_metadata, get (every id used so far + an unused one) and multi_get equal the model in every keyspace named so far; keyspace list within the envelope {keyspaces with >= 1 row} <= list <= {keyspaces ever named}, no duplicates. In the LMDB map-full arm a failed call must leave the model state. Non-trivial = >= 3 mutating calls. Distinct = hash of the call-kind sequence and final model."
    }
    fn assumptions(&self) -> Vec<String> {
        vec![
            "contract-conforming call sequences only (remove_tombstones names tombstones only; one id at most once per bulk call)".into(),
            "keyspace-list corner cases the trait leaves open are judged by the sound envelope, not by equality".into(),
            "SQLite/LMDB run their own worker threads; calls are issued and awaited one at a time so results are order-determined; their internal atomic-commit is trusted (no seam below the C libraries), the kill -9 image is taken between calls".into(),
        ]
    }
    fn components(&self) -> Vec<(&'static str, &'static str)> {
        vec![("datacake-sqlite SqliteStorage (bundled SQLite, real file)", "real"), ("datacake-lmdb LmdbStorage (real LMDB directory)", "real"), ("test_utils::MemStore", "real"), ("disk", "real files on tmpfs under a per-run scratch directory")]
    }
    fn budget(&self, tier: Tier) -> Budget {
        match tier {
            Tier::Quick => Budget { wall_secs: 45, max_cases: 6_000, checkpoint_every: 16, workers: 16 },
            Tier::Thorough => Budget { wall_secs: 420, max_cases: 400_000, checkpoint_every: 16, workers: 16 },
        }
    }
    fn generate(&self, seed: u64, idx: u64, _tier: Tier) -> Value {
        let mut rng = rng_from(case_seed(seed, idx));
        let backend = ["sqlite", "lmdb", "mem"][(idx % 3) as usize];
        let nks = rng.gen_range(1..=3);
        // keyspace names: mostly plain, sometimes names that a backend could confuse with one
        // another (case, SQL quoting and LIKE wildcards, prefixes, blanks, non-ASCII, long; not the empty
        // name, which LMDB refuses with MDB_BAD_VALSIZE - a clean error on an input no caller uses)
        let family: Vec<String> = match rng.gen_range(0..14) {
            0 => vec!["Users".into(), "users".into(), "USERS".into()],
            1 => vec!["ks'1".into(), "ks\"1".into(), "ks;--".into()],
            2 => vec!["ks_1".into(), "ks%1".into(), "ksX1".into()],
            3 => vec!["\u{43a}\u{43b}\u{44e}\u{447}".into(), "ks 1".into(), " ks1".into()],
            4 => vec!["a".into(), "aa".into(), "aaa".into()],
            5 => vec![" ".into(), "  ".into(), "k".repeat(200)],
            // names around LMDB's 511-byte limit for "datacake-<name>-kv" / "-meta"
            6 => {
                let l = rng.gen_range(494..=514);
                let mut v = vec!["n".repeat(l), "ks-1".to_string(), "n".repeat(l - 1)];
                v.rotate_left(rng.gen_range(0..3));
                v
            },
            _ => (0..3).map(|i| format!("ks-{i}")).collect(),
        };
        let kss: Vec<String> = family.into_iter().take(nks).collect();
        let mut pool: Vec<u64> = vec![0, 1, (1u64 << 63) - 1, 1u64 << 63, u64::MAX];
        for _ in 0..rng.gen_range(1..=4) {
            pool.push(rng.gen());
        }
        // keep the pool small so calls collide on ids
        while pool.len() > 5 {
            let i = rng.gen_range(0..pool.len());
            pool.remove(i);
        }
        let big = backend != "mem" && rng.gen_bool(0.15);
        let mapfull = backend == "lmdb" && rng.gen_bool(0.05);
        let n = rng.gen_range(3..=40);
        let mut events = Vec::new();
        for _ in 0..n {
            let ks = kss[rng.gen_range(0..kss.len())].clone();
            let c = match rng.gen_range(0..26) {
                0..=4 => Call::Put { ks, doc: gen_doc(&mut rng, &pool, big), with_ctx: rng.gen_bool(0.3) },
                5..=7 => {
                    let mut docs: Vec<Doc> = Vec::new();
                    // (one bulk call in seven may name an id more than once: the later entry counts)
                    let dups = rng.gen_bool(0.15);
                    for _ in 0..rng.gen_range(1..=4) {
                        let d = gen_doc(&mut rng, &pool, false);
                        if dups || !docs.iter().any(|x| x.id == d.id) {
                            docs.push(d);
                        }
                    }
                    Call::MultiPut { ks, docs, with_ctx: rng.gen_bool(0.3) }
                },
                8..=10 => Call::Mark { ks, id: gen_id(&mut rng, &pool), ts: gen_ts(&mut rng) },
                11..=12 => {
                    let mut items: Vec<(u64, Ts)> = Vec::new();
                    let dups = rng.gen_bool(0.15);
                    for _ in 0..rng.gen_range(1..=4) {
                        let id = gen_id(&mut rng, &pool);
                        if dups || !items.iter().any(|x| x.0 == id) {
                            items.push((id, gen_ts(&mut rng)));
                        }
                    }
                    Call::MarkMany { ks, items }
                },
                13..=14 => Call::RemoveTombstones { ks, ids: (0..rng.gen_range(1..=3)).map(|_| gen_id(&mut rng, &pool)).collect() },
                15..=16 => Call::Get { ks, id: gen_id(&mut rng, &pool) },
                17..=18 => Call::MultiGet { ks, ids: (0..rng.gen_range(1..=5)).map(|_| gen_id(&mut rng, &pool)).collect() },
                19 => Call::IterMetadata { ks },
                20 if backend == "sqlite" && rng.gen_bool(0.5) => {
                    if rng.gen_bool(0.7) {
                        Call::Poison { id: gen_id(&mut rng, &pool) }
                    } else {
                        Call::Heal
                    }
                },
                20 => Call::KeyspaceList,
                21..=22 => Call::Reopen,
                23 => Call::KillCopy,
                24 if backend != "mem" && rng.gen_bool(0.2) => {
                    // one big batch: hundreds of small documents in a single bulk call
                    let base: u64 = rng.gen_range(10_000..1_000_000);
                    let docs: Vec<Doc> = (0..rng.gen_range(513..1_500u64)).map(|j| Doc { id: base + j, ts: gen_ts(&mut rng), len: rng.gen_range(0..16), fill: (j % 251) as u8 }).collect();
                    Call::MultiPut { ks, docs, with_ctx: false }
                },
                _ => Call::Put { ks, doc: gen_doc(&mut rng, &pool, big), with_ctx: false },
            };
            events.push(c);
        }
        if mapfull {
            // one bulk call that cannot fit into the 10 MiB map: it must fail as a whole
            {
                // (sized so that the first few hundred documents would fit and the rest would not)
                let docs: Vec<Doc> = (0..1_100u64).map(|j| Doc { id: 5_000 + j, ts: gen_ts(&mut rng), len: 9_000, fill: (j % 251) as u8 }).collect();
                events.push(Call::MultiPut { ks: kss[0].clone(), docs, with_ctx: false });
            }
            // fill the 10 MiB map: large values until the store refuses
            for j in 0..14 {
                events.push(Call::Put { ks: kss[0].clone(), doc: Doc { id: 1000 + j, ts: gen_ts(&mut rng), len: 1_000_000, fill: j as u8 }, with_ctx: false });
            }
            events.push(Call::Put { ks: kss[0].clone(), doc: gen_doc(&mut rng, &pool, false), with_ctx: false });
        }
        serde_json::to_value(Scenario { backend: backend.to_string(), events }).unwrap()
    }
    fn isolate(&self, scenario: &Value) -> bool {
        // LMDB environments stay open until the process ends (see OLmdb::close): one process per case
        scenario.get("backend").and_then(|b| b.as_str()) == Some("lmdb")
    }
    fn execute(&self, scenario: &Value) -> Outcome {
        let sc: Scenario = match serde_json::from_value(scenario.clone()) {
            Ok(s) => s,
            Err(e) => return Outcome::invalid(format!("bad scenario: {e}")),
        };
        let mut out = Outcome::default();
        let mut tr = Fnv::new();
        tr.str(&sc.backend);
        let rt = tokio::runtime::Builder::new_current_thread().enable_time().build().expect("runtime");
        let res = rt.block_on(async {
            match sc.backend.as_str() {
                "sqlite" => drive::<OSqlite>(&sc, &mut out, &mut tr).await,
                "lmdb" => drive::<OLmdb>(&sc, &mut out, &mut tr).await,
                "mem" => drive::<OMem>(&sc, &mut out, &mut tr).await,
                _ => Err("unknown backend".to_string()),
            }
        });
        drop(rt);
        if let Err(e) = res {
            return Outcome::invalid(e);
        }
        let mutating = sc.events.iter().filter(|c| matches!(c, Call::Put { .. } | Call::MultiPut { .. } | Call::Mark { .. } | Call::MarkMany { .. } | Call::RemoveTombstones { .. })).count();
        out.nontrivial = mutating >= 3;
        out.probe(&format!("backend_{}", sc.backend));
        out.trace_hash = tr.finish();
        out.signature = tr.finish();
        out.state_fp = tr.finish();
        out.sim_ms = 0;
        out
    }
}
