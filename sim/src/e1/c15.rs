//! C15 — replica selection yields enough distinct live peers or reports too few.

use std::borrow::Cow;
use std::collections::{BTreeMap, BTreeSet};
use std::net::{IpAddr, SocketAddr};
use std::sync::OnceLock;
use std::time::Duration;

use datacake_node::verif as nv;
use datacake_node::{Consistency, ConsistencyError, DCAwareSelector, Nodes};
use rand::Rng;
use serde::{Deserialize, Serialize};
use serde_json::Value;

use super::*;
use crate::framework::*;

pub const LEVELS: [&str; 8] = ["None", "One", "Two", "Three", "Quorum", "LocalQuorum", "All", "EachQuorum"];

pub fn level_of(s: &str) -> Option<Consistency> {
    Some(match s {
        "None" => Consistency::None,
        "One" => Consistency::One,
        "Two" => Consistency::Two,
        "Three" => Consistency::Three,
        "Quorum" => Consistency::Quorum,
        "LocalQuorum" => Consistency::LocalQuorum,
        "All" => Consistency::All,
        "EachQuorum" => Consistency::EachQuorum,
        _ => return None,
    })
}

/// node numbers from 100 up are nodes with an identity of their own: their address does not
/// depend on the data centre they are listed in, so a layout change can MOVE them between data
/// centres (watcher arm)
pub const GLOBAL_NODE: u8 = 100;

pub fn addr(dc: u8, n: u8) -> SocketAddr {
    if n >= GLOBAL_NODE {
        return SocketAddr::new(IpAddr::from([10, 250, 0, n - GLOBAL_NODE]), 80);
    }
    SocketAddr::new(IpAddr::from([10, dc, 0, n]), 80)
}

/// watcher arm: the layout as the membership snapshot the gossip layer would publish
fn to_membership(l: &Layout) -> nv::NodeMembership {
    let mut m = nv::NodeMembership::new();
    for (dc, nodes) in l {
        for n in nodes {
            let id = (*n - GLOBAL_NODE) as u8;
            m.insert(id, datacake_node::ClusterMember::new(id, addr(*dc, *n), format!("dc-{dc}")));
        }
    }
    m
}

/// watcher arm: nodes 100..100+k spread over the data centres; the local node (100) stays put
fn gen_global_layout(rng: &mut impl Rng, local_dc: u8, max_dc: u8, k: u8) -> Layout {
    let mut l = Layout::new();
    l.entry(local_dc).or_default().push(GLOBAL_NODE);
    for n in 1..=k {
        if rng.gen_bool(0.8) {
            l.entry(rng.gen_range(0..max_dc)).or_default().push(GLOBAL_NODE + n);
        }
    }
    l
}

/// A layout: data centre index -> node numbers present (the local node is always listed).
pub type Layout = BTreeMap<u8, Vec<u8>>;

#[derive(Serialize, Deserialize, Clone, Debug)]
#[serde(tag = "ev")]
pub enum Ev {
    #[serde(rename = "get")]
    Get { level: String },
    #[serde(rename = "set")]
    Set {
        #[serde(with = "layout_serde")]
        layout: Layout,
    },
    /// let virtual time pass (the selection cache expires after 2 s)
    #[serde(rename = "sleep")]
    Sleep { ms: u64 },
    /// `n` concurrent selections are in flight (queued at the selector) when the next event runs
    #[serde(rename = "flood")]
    Flood { n: u32, level: String },
}

#[derive(Serialize, Deserialize, Clone, Debug)]
pub struct Scenario {
    pub local_dc: u8,
    pub local_pos: u8,
    #[serde(with = "layout_serde")]
    pub initial: Layout,
    pub events: Vec<Ev>,
    pub rng_seed: u64,
    /// layouts reach the selector through the real membership watcher (as snapshots of the
    /// membership layer) instead of being installed directly; nodes keep id and address when a
    /// layout lists them in another data centre
    #[serde(default)]
    pub via_watcher: bool,
}

pub struct C15;

/// (De)serialises a layout as a list of (data centre, nodes) pairs: JSON object keys are strings
/// and do not survive serde's internally tagged enums as integers.
mod layout_serde {
    use super::Layout;
    use serde::{Deserialize, Deserializer, Serialize, Serializer};
    pub fn serialize<S: Serializer>(l: &Layout, s: S) -> Result<S::Ok, S::Error> {
        let v: Vec<(u8, Vec<u8>)> = l.iter().map(|(k, v)| (*k, v.clone())).collect();
        v.serialize(s)
    }
    pub fn deserialize<'de, D: Deserializer<'de>>(d: D) -> Result<Layout, D::Error> {
        let v: Vec<(u8, Vec<u8>)> = Vec::deserialize(d)?;
        Ok(v.into_iter().collect())
    }
}

fn to_map(l: &Layout) -> BTreeMap<Cow<'static, str>, Nodes> {
    let mut m = BTreeMap::new();
    for (dc, nodes) in l {
        let mut v = Nodes::new();
        for n in nodes {
            v.push(addr(*dc, *n));
        }
        m.insert(Cow::Owned(format!("dc-{dc}")), v);
    }
    m
}

/// What the level requires, given the current layout. Returns (total others required,
/// per-dc minimum others, exact count for One/Two/Three).
fn required(level: &str, l: &Layout, local_dc: u8) -> (usize, BTreeMap<u8, usize>, Option<usize>) {
    let total: usize = l.values().map(|v| v.len()).sum();
    let mut per = BTreeMap::new();
    match level {
        "None" => (0, per, None),
        "One" => (1, per, Some(1)),
        "Two" => (2, per, Some(2)),
        "Three" => (3, per, Some(3)),
        "Quorum" => (total / 2, per, None),
        "LocalQuorum" => {
            let n = l.get(&local_dc).map(|v| v.len()).unwrap_or(0);
            per.insert(local_dc, n / 2);
            (n / 2, per, None)
        },
        "EachQuorum" => {
            let mut sum = 0;
            for (dc, v) in l {
                let m = if *dc == local_dc { v.len() / 2 } else { v.len() / 2 + 1 };
                per.insert(*dc, m);
                sum += m;
            }
            (sum, per, None)
        },
        "All" => (total.saturating_sub(1), per, None),
        _ => (0, per, None),
    }
}

pub fn judge(level: &str, layout: &Layout, local: SocketAddr, local_dc: u8, res: &Result<Nodes, ConsistencyError>, hist: &str, out: &mut Outcome) {
    let others: BTreeSet<SocketAddr> = layout.iter().flat_map(|(dc, v)| v.iter().map(move |n| addr(*dc, *n))).filter(|a| *a != local).collect();
    let (need, per_dc, exact) = required(level, layout, local_dc);
    let family = if exact.is_some() { "select_n_nodes" } else { "quorum-levels" };
    match res {
        Ok(nodes) => {
            let set: BTreeSet<SocketAddr> = nodes.iter().copied().collect();
            if set.len() != nodes.len() {
                out.violate(format!("C15/duplicate-node-selected/{family}"), format!("{hist}: {level} returned {:?}", nodes.to_vec()));
            }
            if nodes.contains(&local) {
                out.violate(format!("C15/local-node-selected/{family}"), format!("{hist}: {level} returned the local node in {:?}", nodes.to_vec()));
            }
            let gone: Vec<_> = set.iter().filter(|a| **a != local && !others.contains(a)).collect();
            if !gone.is_empty() {
                out.violate(
                    format!("C15/departed-node-selected/{family}"),
                    format!("{hist}: {level} returned {:?} which are not members of the current layout {:?}", gone, layout),
                );
            }
            let live: BTreeSet<_> = set.intersection(&others).collect();
            if live.len() < need {
                out.violate(
                    format!("C15/fewer-live-peers-than-level-requires/{family}"),
                    format!("{hist}: {level} needs {need} other live nodes, Ok({:?}) has {} (layout {:?})", nodes.to_vec(), live.len(), layout),
                );
            }
            for (dc, m) in &per_dc {
                // which data centre an address belongs to is read off the layout (the address of a
                // node of the watcher arm does not name its data centre)
                let in_dc: BTreeSet<SocketAddr> = layout.get(dc).map(|v| v.iter().map(|n| addr(*dc, *n)).collect()).unwrap_or_default();
                let have = live.iter().filter(|a| in_dc.contains(**a)).count();
                if have < *m {
                    out.violate(
                        format!("C15/fewer-live-peers-than-level-requires/{family}"),
                        format!("{hist}: {level} needs {m} other live nodes in dc-{dc}, got {have}: {:?} (layout {:?})", nodes.to_vec(), layout),
                    );
                }
            }
            if let Some(n) = exact {
                if nodes.len() != n {
                    out.violate(format!("C15/not-exactly-n-nodes/{family}"), format!("{hist}: {level} returned {} nodes {:?}", nodes.len(), nodes.to_vec()));
                }
            }
        },
        Err(ConsistencyError::NotEnoughNodes { live, required }) => {
            if others.len() >= need {
                out.violate(
                    format!("C15/spurious-not-enough-nodes/{family}"),
                    format!("{hist}: {level} failed with NotEnoughNodes{{live:{live},required:{required}}} although {} other live nodes exist (need {need}); layout {:?}", others.len(), layout),
                );
            } else {
                out.probe("legitimate_not_enough_nodes");
            }
        },
        Err(e) => {
            out.violate("C15/unexpected-error", format!("{hist}: {level} failed with {e}"));
        },
    }
}

fn enum_cases() -> &'static Vec<Scenario> {
    static CASES: OnceLock<Vec<Scenario>> = OnceLock::new();
    CASES.get_or_init(|| {
        let mut v = Vec::new();
        for a in 1..=3u8 {
            for b in 0..=3u8 {
                for c in 0..=3u8 {
                    if b == 0 && c > 0 {
                        continue;
                    }
                    let sizes: Vec<u8> = [a, b, c].into_iter().filter(|x| *x > 0).collect();
                    let layout: Layout = sizes.iter().enumerate().map(|(i, s)| (i as u8, (0..*s).collect())).collect();
                    for ldc in 0..sizes.len() as u8 {
                        for lpos in 0..sizes[ldc as usize] {
                            for l1 in LEVELS {
                                for l2 in LEVELS {
                                    v.push(Scenario {
                                        local_dc: ldc,
                                        local_pos: lpos,
                                        initial: layout.clone(),
                                        // the 2 s cache must not hide the second selection
                                        events: vec![Ev::Get { level: l1.to_string() }, Ev::Sleep { ms: 2100 }, Ev::Get { level: l2.to_string() }],
                                        rng_seed: 1,
                                        via_watcher: false,
                                    });
                                }
                            }
                        }
                    }
                }
            }
        }
        v
    })
}

fn gen_layout(rng: &mut impl Rng, local_dc: u8, local_pos: u8, max_dc: u8, max_n: u8) -> Layout {
    let mut l = Layout::new();
    for dc in 0..max_dc {
        if dc != local_dc && rng.gen_bool(0.3) {
            continue;
        }
        let mut nodes: Vec<u8> = (0..max_n).filter(|_| rng.gen_bool(0.65)).collect();
        if dc == local_dc && !nodes.contains(&local_pos) {
            nodes.push(local_pos);
            nodes.sort();
        }
        if nodes.is_empty() {
            continue;
        }
        l.insert(dc, nodes);
    }
    l
}

/// One real node (public API only) alone in its cluster: whatever the level, a selection must not
/// contain the node itself, and levels that need another node must report too few.
fn execute_real_node(r: &Value) -> Outcome {
    use std::cell::RefCell;
    use std::rc::Rc;
    let mut out = Outcome::default();
    let listen_unspecified = r["listen_unspecified"].as_bool().unwrap_or(true);
    let dc = r["dc"].as_str().unwrap_or("dc0").to_string();
    let levels: Vec<String> = r["levels"].as_array().map(|a| a.iter().filter_map(|x| x.as_str().map(|s| s.to_string())).collect()).unwrap_or_default();
    let net_seed = r["net_seed"].as_u64().unwrap_or(1);
    datacake_crdt::verif::seed_rng(Some(net_seed | 1));
    let results: Rc<RefCell<Vec<(String, Result<Vec<SocketAddr>, String>, SocketAddr)>>> = Rc::new(RefCell::new(Vec::new()));
    let mut sim = turmoil::Builder::new()
        .simulation_duration(Duration::from_secs(600))
        .tick_duration(Duration::from_millis(1))
        .build_with_rng(Box::new(<rand::rngs::SmallRng as rand::SeedableRng>::seed_from_u64(net_seed)));
    {
        let (results, levels, dc) = (results.clone(), levels.clone(), dc.clone());
        sim.client("solo", async move {
            let ip = turmoil::lookup("solo");
            let public: SocketAddr = (ip, 9000).into();
            let listen: SocketAddr = if listen_unspecified { (IpAddr::from([0, 0, 0, 0]), 9000).into() } else { public };
            let node = datacake_node::DatacakeNodeBuilder::<DCAwareSelector>::new(1, datacake_node::ConnectionConfig::new(listen, public, Vec::<String>::new()))
                .with_data_center(dc)
                .connect()
                .await
                .map_err(|e| format!("connect: {e}"))?;
            tokio::time::sleep(Duration::from_millis(1_500)).await;
            let handle = node.handle();
            for l in &levels {
                let res = handle.select_nodes(level_of(l).unwrap_or(Consistency::None)).await.map(|n| n.to_vec()).map_err(|e| e.to_string());
                results.borrow_mut().push((l.clone(), res, public));
                tokio::time::sleep(Duration::from_millis(700)).await;
            }
            Ok(())
        });
    }
    let run = std::panic::catch_unwind(std::panic::AssertUnwindSafe(|| sim.run()));
    drop(sim);
    datacake_crdt::verif::seed_rng(None);
    for (loc, msg) in take_panics() {
        if loc.starts_with("/repo/") {
            out.violate(format!("C15/panic@{}", loc.trim_start_matches("/repo/")), format!("{loc}: {msg}"));
        } else {
            out.anomalies.push(format!("{loc}: {msg}"));
        }
    }
    if let Ok(Err(e)) = &run {
        out.anomalies.push(format!("simulation ended with: {e}"));
    }
    let mut tr = Fnv::new();
    for (l, res, public) in results.borrow().iter() {
        tr.str(l);
        let needs_other = matches!(l.as_str(), "One" | "Two" | "Three");
        match res {
            Ok(nodes) => {
                tr.u64(nodes.len() as u64);
                if nodes.contains(public) {
                    out.violate("C15/real-node/local-node-selected", format!("a node alone in its cluster (listen address {}, advertised {public}) selected itself for level {l}: {:?}", if listen_unspecified { "0.0.0.0:9000" } else { "= advertised" }, nodes));
                } else if needs_other {
                    out.violate("C15/real-node/selection-succeeds-without-enough-nodes", format!("level {l} on a node alone in its cluster returned {:?}", nodes));
                } else if !nodes.is_empty() {
                    out.violate("C15/real-node/unknown-node-selected", format!("level {l} on a node alone in its cluster returned {:?}", nodes));
                }
            },
            Err(e) => {
                tr.str("err");
                if !needs_other {
                    out.violate("C15/real-node/spurious-not-enough-nodes", format!("level {l} on a node alone in its cluster failed: {e}"));
                }
            },
        }
    }
    out.probe("real_node_arm_case");
    if listen_unspecified {
        out.fault("listen_address_differs_from_advertised_address");
    }
    out.nontrivial = !results.borrow().is_empty();
    out.trace_hash = tr.finish();
    out.signature = tr.finish();
    out.state_fp = tr.finish();
    out.sim_ms = 1_500 + 700 * levels.len() as u64;
    out
}

impl Check for C15 {
    fn id(&self) -> &'static str {
        "C15"
    }
    fn title(&self) -> &'static str {
        "Replica selection yields enough distinct live peers or reports too few"
    }
    fn engine(&self) -> &'static str {
        "E1 single-node engine: the real selector actor (start_node_selector + DCAwareSelector) driven through NodeSelectorHandle::get_nodes / set_nodes in virtual time, data-centre choice from the seeded hook PRNG"
    }
    fn rule(&self) -> &'static str {
        "Watcher arm (one seeded case in five): layouts reach the selector as membership snapshots through the real watch_membership_changes; nodes keep id and address, and half of the updates only MOVE nodes between data centres. Cases: (a) enumerated: every layout of up to 3 data centres x 3 nodes, every local position, every ordered pair of consistency levels selected one after the other across the 2 s cache boundary (13 056 two-step histories, complete); (b) seeded: layouts up to 4 DCs x 4 nodes, 3-25 steps of get_nodes(level) / set_nodes(new layout: nodes and whole data centres leaving and returning) / virtual sleeps across the cache expiry. Oracle per selection against the currently installed layout: only current members other than the local node, no duplicates, at least (exactly, for One/Two/Three) the required number, per-DC majorities for Local/EachQuorum; NotEnoughNodes only when too few other members exist. Non-trivial = >= 2 selections and (a membership update or a cursor-advancing level before). Distinct = hash of the (event, result) sequence."
    }
    fn assumptions(&self) -> Vec<String> {
        vec![
            "required counts: None 0; One/Two/Three exactly n; Quorum floor(N/2) others; LocalQuorum floor(n_local/2) others in the local DC; EachQuorum that plus floor(n/2)+1 in every other DC; All every other member".into(),
            "the local node is always part of the layout handed to set_nodes, as watch_membership_changes does".into(),
        ]
    }
    fn components(&self) -> Vec<(&'static str, &'static str)> {
        vec![("datacake-node start_node_selector actor, NodeSelectorHandle, DCAwareSelector, select_n_nodes, NodeCycler", "real"), ("rand::thread_rng in select_n_nodes", "replaced by the seeded hook PRNG (H4)"), ("std::time::Instant cache clock", "tokio virtual time (H4)")]
    }
    fn budget(&self, tier: Tier) -> Budget {
        let e = enum_cases().len() as u64;
        match tier {
            Tier::Quick => Budget { wall_secs: 40, max_cases: e + 400_000, checkpoint_every: 256, workers: 16 },
            Tier::Thorough => Budget { wall_secs: 600, max_cases: e + 30_000_000, checkpoint_every: 256, workers: 16 },
        }
    }
    fn generate(&self, seed: u64, idx: u64, _tier: Tier) -> Value {
        // real-node arm: one node built with DatacakeNodeBuilder::connect on a simulated host whose
        // listen address differs from the address it advertises (0.0.0.0 vs the host's address)
        let idx = match arm_split(idx, 1999) {
            Ok(ordinal) => {
                let mut rng = rng_from(case_seed(seed ^ 0xA15, ordinal));
                let levels: Vec<String> = (0..rng.gen_range(3..=10)).map(|_| LEVELS[rng.gen_range(0..8)].to_string()).collect();
                return serde_json::json!({ "real_node": { "listen_unspecified": rng.gen_bool(0.8), "dc": (["dc0", "EU-West", "us East 1", "AP_South", "dc2"][rng.gen_range(0..5)]), "levels": levels, "net_seed": rng.gen::<u64>() } });
            },
            Err(main) => main,
        };
        let e = enum_cases();
        if (idx as usize) < e.len() {
            return serde_json::to_value(&e[idx as usize]).unwrap();
        }
        let mut rng = rng_from(case_seed(seed, idx));
        if mix(0x3A7C, idx) % 5 == 0 {
            // watcher arm: membership snapshots through the real watch_membership_changes; nodes
            // join, leave and MOVE between data centres keeping id and address
            let max_dc = rng.gen_range(1..=3u8);
            let k = rng.gen_range(1..=6u8);
            let local_dc = rng.gen_range(0..max_dc);
            let initial = gen_global_layout(&mut rng, local_dc, max_dc, k);
            let mut events = Vec::new();
            for _ in 0..rng.gen_range(3..=20) {
                match rng.gen_range(0..10) {
                    0..=5 => events.push(Ev::Get { level: LEVELS[rng.gen_range(0..8)].to_string() }),
                    6..=7 => {
                        let prev = events.iter().rev().find_map(|e| if let Ev::Set { layout } = e { Some(layout.clone()) } else { None }).unwrap_or_else(|| initial.clone());
                        // half of the updates only move nodes between data centres
                        let next = if rng.gen_bool(0.5) {
                            let mut l = Layout::new();
                            for (dc, nodes) in &prev {
                                for n in nodes {
                                    let d = if *n == GLOBAL_NODE || rng.gen_bool(0.5) { *dc } else { rng.gen_range(0..max_dc) };
                                    l.entry(d).or_default().push(*n);
                                }
                            }
                            l
                        } else {
                            gen_global_layout(&mut rng, local_dc, max_dc, k)
                        };
                        events.push(Ev::Set { layout: next })
                    },
                    _ => events.push(Ev::Sleep { ms: [100, 1900, 2100, 5000][rng.gen_range(0..4)] }),
                }
            }
            return serde_json::to_value(Scenario { local_dc, local_pos: GLOBAL_NODE, initial, events, rng_seed: rng.gen(), via_watcher: true }).unwrap();
        }
        let max_dc = rng.gen_range(1..=4u8);
        let max_n = rng.gen_range(1..=4u8);
        let local_dc = rng.gen_range(0..max_dc);
        let local_pos = rng.gen_range(0..max_n);
        let initial = gen_layout(&mut rng, local_dc, local_pos, max_dc, max_n);
        let mut events = Vec::new();
        for _ in 0..rng.gen_range(3..=25) {
            match rng.gen_range(0..10) {
                0..=5 => events.push(Ev::Get { level: LEVELS[rng.gen_range(0..8)].to_string() }),
                6..=7 => {
                    if rng.gen_bool(0.25) {
                        events.push(Ev::Flood { n: rng.gen_range(90..260), level: LEVELS[rng.gen_range(0..8)].to_string() });
                    }
                    events.push(Ev::Set { layout: gen_layout(&mut rng, local_dc, local_pos, max_dc, max_n) })
                },
                _ => events.push(Ev::Sleep { ms: [100, 1900, 2100, 5000][rng.gen_range(0..4)] }),
            }
        }
        serde_json::to_value(Scenario { local_dc, local_pos, initial, events, rng_seed: rng.gen(), via_watcher: false }).unwrap()
    }
    fn isolate(&self, scenario: &Value) -> bool {
        scenario.get("real_node").is_some()
    }
    fn execute(&self, scenario: &Value) -> Outcome {
        if let Some(r) = scenario.get("real_node") {
            return execute_real_node(r);
        }
        let sc: Scenario = match serde_json::from_value(scenario.clone()) {
            Ok(s) => s,
            Err(e) => return Outcome::invalid(format!("bad scenario: {e}")),
        };
        if !sc.initial.get(&sc.local_dc).map(|v| v.contains(&sc.local_pos)).unwrap_or(false) {
            return Outcome::invalid("the local node must be part of the initial layout");
        }
        let mut out = Outcome::default();
        let rt = new_runtime();
        datacake_crdt::verif::seed_rng(Some(sc.rng_seed));
        let local = addr(sc.local_dc, sc.local_pos);
        let mut tr = Fnv::new();
        let mut gets = 0;
        let mut sets = 0;
        let mut invalid: Option<String> = None;
        rt.block_on(async {
            let handle = nv::start_node_selector(local, Cow::Owned(format!("dc-{}", sc.local_dc)), DCAwareSelector::default()).await;
            let mut layout = sc.initial.clone();
            // watcher arm: the real membership watcher turns snapshots into selector updates
            let member_tx = if sc.via_watcher {
                let (mtx, mrx) = tokio::sync::watch::channel(to_membership(&layout));
                let (ctx, _crx) = tokio::sync::watch::channel(datacake_node::MembershipChange::default());
                tokio::spawn(nv::watch_membership_changes(
                    0,
                    datacake_node::RpcNetwork::default(),
                    handle.clone(),
                    datacake_node::ClusterStatistics::default(),
                    tokio_stream::wrappers::WatchStream::new(mrx),
                    ctx,
                ));
                tokio::time::sleep(Duration::from_millis(1)).await;
                out.probe("watcher_arm_case");
                Some(mtx)
            } else {
                nv::set_nodes(&handle, to_map(&layout)).await;
                None
            };
            let mut hist = format!("layout {:?}, local dc-{}#{}", layout, sc.local_dc, sc.local_pos);
            let mut flood: Vec<tokio::task::JoinHandle<()>> = Vec::new();
            for ev in &sc.events {
                if !matches!(ev, Ev::Flood { .. } | Ev::Set { .. }) {
                    for f in flood.drain(..) {
                        let _ = f.await;
                    }
                }
                match ev {
                    Ev::Get { level } => {
                        let Some(l) = level_of(level) else {
                            invalid = Some("bad level".into());
                            return;
                        };
                        let res = handle.get_nodes(l).await;
                        gets += 1;
                        hist.push_str(&format!(" -> get({level})"));
                        match &res {
                            Ok(n) => {
                                tr.u64(1).u64(n.len() as u64);
                                for a in n.iter() {
                                    tr.str(&a.to_string());
                                }
                            },
                            Err(_) => {
                                tr.u64(2);
                            },
                        }
                        judge(level, &layout, local, sc.local_dc, &res, &hist, &mut out);
                    },
                    Ev::Set { layout: l } => {
                        if !l.get(&sc.local_dc).map(|v| v.contains(&sc.local_pos)).unwrap_or(false) {
                            invalid = Some("the local node must be part of every layout".into());
                            return;
                        }
                        let left_dcs = layout.keys().filter(|k| !l.contains_key(k)).count();
                        if left_dcs > 0 {
                            out.fault("data_centre_left");
                        }
                        let before: BTreeSet<_> = layout.iter().flat_map(|(d, v)| v.iter().map(move |n| (*d, *n))).collect();
                        let after: BTreeSet<_> = l.iter().flat_map(|(d, v)| v.iter().map(move |n| (*d, *n))).collect();
                        out.fault_n("node_left", before.difference(&after).count() as u64);
                        out.fault_n("node_joined", after.difference(&before).count() as u64);
                        let moved = before.iter().filter(|(d, n)| *n >= GLOBAL_NODE && !after.contains(&(*d, *n)) && after.iter().any(|(_, m)| m == n)).count();
                        out.fault_n("node_moved_to_another_data_centre", moved as u64);
                        layout = l.clone();
                        match &member_tx {
                            Some(tx) => {
                                let _ = tx.send(to_membership(&layout));
                                // the watcher and the selector take the update in
                                tokio::time::sleep(Duration::from_millis(1)).await;
                            },
                            None => nv::set_nodes(&handle, to_map(&layout)).await,
                        }
                        sets += 1;
                        hist.push_str(&format!(" -> set({:?})", layout));
                        tr.u64(3);
                    },
                    Ev::Flood { n, level } => {
                        let Some(l) = level_of(level) else {
                            invalid = Some("bad level".into());
                            return;
                        };
                        for _ in 0..*n {
                            let h = handle.clone();
                            flood.push(tokio::spawn(async move {
                                let _ = h.get_nodes(l).await;
                            }));
                        }
                        // let them queue up at the selector (which has not run yet)
                        tokio::task::yield_now().await;
                        out.fault_n("selections_in_flight_during_membership_update", *n as u64);
                        hist.push_str(&format!(" -> {n} concurrent get({level}) in flight"));
                    },
                    Ev::Sleep { ms } => {
                        tokio::time::sleep(Duration::from_millis(*ms)).await;
                        if *ms >= 2000 {
                            out.fault("selection_cache_expired");
                        }
                        hist.push_str(&format!(" -> sleep({ms}ms)"));
                    },
                }
            }
        });
        drop(rt);
        datacake_crdt::verif::seed_rng(None);
        if let Some(e) = invalid {
            return Outcome::invalid(e);
        }
        out.nontrivial = gets >= 2;
        let _ = sets;
        out.trace_hash = tr.finish();
        out.signature = tr.finish();
        out.state_fp = tr.finish();
        out.sim_ms = sc.events.iter().map(|e| if let Ev::Sleep { ms } = e { *ms } else { 0 }).sum();
        out
    }
}
