//! E1 — single-node engine: a paused current-thread tokio runtime (virtual time, no real sleep),
//! the real actors / services / handles, and a storage object that lives outside the runtime so
//! that dropping the runtime is a crash in which only durable state survives.

pub mod c02;
pub mod c07;
pub mod requests;
pub mod c11;
pub mod c15;
pub mod c16;
pub mod c17;
pub mod c18;

use std::collections::BTreeMap;
use std::future::Future;
use std::sync::atomic::{AtomicBool, Ordering};
use std::sync::Arc;
use std::time::Duration;

use datacake_crdt::{HLCTimestamp, Key, OrSWotSet, DATACAKE_EPOCH};
use datacake_eventual_consistency::{BulkMutationError, Document, DocumentMetadata, PutContext, Storage};
use parking_lot::Mutex;

use crate::framework::{mix, Fnv};

pub type Listing = (Vec<(Key, HLCTimestamp)>, Vec<(Key, HLCTimestamp)>);

#[derive(Debug)]
pub struct SimError(pub String);
impl std::fmt::Display for SimError {
    fn fmt(&self, f: &mut std::fmt::Formatter<'_>) -> std::fmt::Result {
        write!(f, "{}", self.0)
    }
}
impl std::error::Error for SimError {}

#[derive(Clone, Debug, PartialEq, Eq)]
pub struct Row {
    pub ts: HLCTimestamp,
    /// None = tombstone
    pub data: Option<Vec<u8>>,
}

#[derive(Clone, Debug)]
pub struct CallRec {
    pub no: u64,
    pub kind: &'static str,
    pub keyspace: String,
    /// (id, ts) the call was asked to write (mutating calls)
    pub items: Vec<(Key, HLCTimestamp)>,
    /// payload of each item (None for tombstones / removals)
    pub datas: Vec<Option<Vec<u8>>>,
    /// how many of them were applied
    pub applied: usize,
    pub ok: bool,
}

#[derive(Clone, Copy, Debug, PartialEq, Eq)]
pub enum FaultKind {
    /// the call fails; a bulk call first applies exactly `k` of its documents and reports them
    FailAfter(u32),
}

#[derive(Default)]
pub struct StoreState {
    pub rows: BTreeMap<String, BTreeMap<Key, Row>>,
    /// keyspaces ever created by a mutating call
    pub keyspaces: Vec<String>,
    pub calls: Vec<CallRec>,
    pub mutating_calls: u64,
    /// mutating call number -> fault
    pub faults: BTreeMap<u64, FaultKind>,
    pub faults_fired: u64,
    /// latency: 0 = none; otherwise each call sleeps mix(seed, call) % (max+1) virtual ms
    pub latency_max_ms: u64,
    /// same for the scans a start-up performs (get_keyspace_list, iter_metadata): 0 = none
    pub scan_latency_max_ms: u64,
    pub latency_seed: u64,
    /// explicit per-call latencies (mutating call number -> ms), override the above
    pub latency_at: BTreeMap<u64, u64>,
    /// park (never return) at this mutating call after applying `prefix` of its writes
    pub park_at: Option<(u64, u32)>,
    pub reads: u64,
    /// document reads (get / multi_get), counted from 1; the listed ones fail
    pub doc_reads: u64,
    pub read_faults: std::collections::BTreeSet<u64>,
    /// armed by the harness: the next bulk put with more than k documents applies k and fails
    pub arm_partial_bulk: Option<u32>,
    /// `remove_tombstones` removes whatever row a key names, live or not, as the bundled SQLite
    /// backend does (`DELETE ... WHERE keyspace = ? AND doc_id = ?`); otherwise only tombstones
    pub blunt_removal: bool,
    /// ordinals (1-based, counting only calls that name at least one key) of the
    /// `remove_tombstones` calls that fail having removed nothing
    pub removal_faults: std::collections::BTreeSet<u64>,
    pub removal_calls: u64,
}

/// Ordered-map storage behind the real `Storage` trait.
#[derive(Clone, Default)]
pub struct SimStorage {
    pub st: Arc<Mutex<StoreState>>,
    pub parked: Arc<AtomicBool>,
    pub parked_notify: Arc<tokio::sync::Notify>,
}

impl SimStorage {
    pub fn metadata(&self, ks: &str) -> Listing {
        let st = self.st.lock();
        let mut live = Vec::new();
        let mut dead = Vec::new();
        if let Some(m) = st.rows.get(ks) {
            for (k, r) in m {
                if r.data.is_some() {
                    live.push((*k, r.ts));
                } else {
                    dead.push((*k, r.ts));
                }
            }
        }
        (live, dead)
    }
    pub fn keyspace_names(&self) -> Vec<String> {
        self.st.lock().keyspaces.clone()
    }
    pub fn fingerprint(&self) -> u64 {
        let st = self.st.lock();
        let mut f = Fnv::new();
        for (ks, m) in &st.rows {
            f.str(ks);
            for (k, r) in m {
                f.u64(*k).u64(r.ts.as_u64()).u64(r.data.is_some() as u64);
                if let Some(d) = &r.data {
                    f.bytes(d);
                }
            }
        }
        f.finish()
    }
    pub fn trace_hash(&self) -> u64 {
        let st = self.st.lock();
        let mut f = Fnv::new();
        for c in &st.calls {
            f.str(c.kind).str(&c.keyspace).u64(c.applied as u64).u64(c.ok as u64);
            for (k, t) in &c.items {
                f.u64(*k).u64(t.as_u64());
            }
        }
        f.finish()
    }

    async fn latency(&self, call_no: u64) {
        let ms = {
            let st = self.st.lock();
            if let Some(ms) = st.latency_at.get(&call_no) {
                *ms
            } else if st.latency_max_ms > 0 {
                mix(st.latency_seed, call_no) % (st.latency_max_ms + 1)
            } else {
                0
            }
        };
        if ms > 0 {
            tokio::time::sleep(Duration::from_millis(ms)).await;
        }
    }

    /// a scan returns the rows as they are when it completes, after its (virtual) duration
    async fn scan_latency(&self) {
        let ms = {
            let st = self.st.lock();
            if st.scan_latency_max_ms > 0 {
                mix(st.latency_seed ^ 0x5CA9, st.reads) % (st.scan_latency_max_ms + 1)
            } else {
                0
            }
        };
        if ms > 0 {
            tokio::time::sleep(Duration::from_millis(ms)).await;
        }
    }

    fn begin_mutation(&self) -> (u64, Option<FaultKind>, Option<u32>) {
        let mut st = self.st.lock();
        st.mutating_calls += 1;
        let no = st.mutating_calls;
        let f = st.faults.get(&no).copied();
        let park = match st.park_at {
            Some((n, p)) if n == no => Some(p),
            _ => None,
        };
        (no, f, park)
    }

    fn ensure_ks(st: &mut StoreState, ks: &str) {
        if !st.keyspaces.iter().any(|k| k == ks) {
            st.keyspaces.push(ks.to_string());
        }
    }

    /// Common body of every mutating call. `items` = writes in order; `write` applies one.
    async fn mutate(
        &self,
        kind: &'static str,
        ks: &str,
        items: Vec<(Key, HLCTimestamp, Option<Vec<u8>>, bool)>, // (id, ts, data, is_remove_tombstone)
        bulk: bool,
    ) -> Result<(), (SimError, Vec<Key>)> {
        let (no, mut fault, park) = self.begin_mutation();
        self.latency(no).await;
        let n = items.len();
        if fault.is_none() && bulk && kind == "multi_put" {
            let mut st = self.st.lock();
            if let Some(k) = st.arm_partial_bulk {
                if n > k as usize {
                    st.arm_partial_bulk = None;
                    fault = Some(FaultKind::FailAfter(k));
                }
            }
        }
        if fault.is_none() && kind == "remove_tombstones" && n > 0 {
            let mut st = self.st.lock();
            st.removal_calls += 1;
            if st.removal_faults.contains(&st.removal_calls) {
                fault = Some(FaultKind::FailAfter(0));
            }
        }
        let limit = if let Some(p) = park {
            (p as usize).min(n)
        } else if let Some(FaultKind::FailAfter(k)) = fault {
            if bulk {
                (k as usize).min(n)
            } else {
                0
            }
        } else {
            n
        };
        let mut applied_ids = Vec::new();
        {
            let mut st = self.st.lock();
            Self::ensure_ks(&mut st, ks);
            let blunt = st.blunt_removal;
            let m = st.rows.entry(ks.to_string()).or_default();
            for (id, ts, data, is_rm) in items.iter().take(limit) {
                if *is_rm {
                    if blunt || matches!(m.get(id), Some(r) if r.data.is_none()) {
                        m.remove(id);
                    }
                } else {
                    m.insert(*id, Row { ts: *ts, data: data.clone() });
                }
                applied_ids.push(*id);
            }
            let ok = fault.is_none() && park.is_none();
            st.calls.push(CallRec {
                no,
                kind,
                keyspace: ks.to_string(),
                items: items.iter().map(|(k, t, _, _)| (*k, *t)).collect(),
                datas: items.iter().map(|(_, _, d, _)| d.clone()).collect(),
                applied: limit,
                ok,
            });
            if fault.is_some() && park.is_none() {
                st.faults_fired += 1;
            }
        }
        if park.is_some() {
            self.parked.store(true, Ordering::SeqCst);
            self.parked_notify.notify_one();
            std::future::pending::<()>().await;
        }
        if fault.is_some() {
            return Err((SimError(format!("injected storage failure at mutating call {no}")), applied_ids));
        }
        Ok(())
    }
}

#[async_trait::async_trait]
impl Storage for SimStorage {
    type Error = SimError;
    type DocsIter = std::vec::IntoIter<Document>;
    type MetadataIter = std::vec::IntoIter<(Key, HLCTimestamp, bool)>;

    async fn get_keyspace_list(&self) -> Result<Vec<String>, Self::Error> {
        self.scan_latency().await;
        let mut st = self.st.lock();
        st.reads += 1;
        Ok(st.keyspaces.clone())
    }

    async fn iter_metadata(&self, keyspace: &str) -> Result<Self::MetadataIter, Self::Error> {
        self.scan_latency().await;
        let mut st = self.st.lock();
        st.reads += 1;
        let v: Vec<(Key, HLCTimestamp, bool)> = st
            .rows
            .get(keyspace)
            .map(|m| m.iter().map(|(k, r)| (*k, r.ts, r.data.is_none())).collect())
            .unwrap_or_default();
        Ok(v.into_iter())
    }

    async fn remove_tombstones(
        &self,
        keyspace: &str,
        keys: impl Iterator<Item = Key> + Send,
    ) -> Result<(), BulkMutationError<Self::Error>> {
        let items: Vec<_> = keys.map(|k| (k, HLCTimestamp::from_u64(0), None, true)).collect();
        self.mutate("remove_tombstones", keyspace, items, true)
            .await
            .map_err(|(e, ids)| BulkMutationError::new(e, ids))
    }

    async fn put(&self, keyspace: &str, document: Document) -> Result<(), Self::Error> {
        let items = vec![(document.id(), document.last_updated(), Some(document.data().to_vec()), false)];
        self.mutate("put", keyspace, items, false).await.map_err(|(e, _)| e)
    }

    // A storage may report progress through the context a repair hands it (the trait invites
    // this for slow stores); this one always does, before the write itself.
    async fn put_with_ctx(&self, keyspace: &str, document: Document, ctx: Option<&PutContext>) -> Result<(), Self::Error> {
        if let Some(c) = ctx {
            c.register_progress();
        }
        self.put(keyspace, document).await
    }

    async fn multi_put_with_ctx(
        &self,
        keyspace: &str,
        documents: impl Iterator<Item = Document> + Send,
        ctx: Option<&PutContext>,
    ) -> Result<(), BulkMutationError<Self::Error>> {
        if let Some(c) = ctx {
            c.register_progress();
        }
        self.multi_put(keyspace, documents).await
    }

    async fn multi_put(
        &self,
        keyspace: &str,
        documents: impl Iterator<Item = Document> + Send,
    ) -> Result<(), BulkMutationError<Self::Error>> {
        let items: Vec<_> = documents.map(|d| (d.id(), d.last_updated(), Some(d.data().to_vec()), false)).collect();
        self.mutate("multi_put", keyspace, items, true)
            .await
            .map_err(|(e, ids)| BulkMutationError::new(e, ids))
    }

    async fn mark_as_tombstone(&self, keyspace: &str, doc_id: Key, timestamp: HLCTimestamp) -> Result<(), Self::Error> {
        let items = vec![(doc_id, timestamp, None, false)];
        self.mutate("mark_as_tombstone", keyspace, items, false).await.map_err(|(e, _)| e)
    }

    async fn mark_many_as_tombstone(
        &self,
        keyspace: &str,
        documents: impl Iterator<Item = DocumentMetadata> + Send,
    ) -> Result<(), BulkMutationError<Self::Error>> {
        let items: Vec<_> = documents.map(|d| (d.id, d.last_updated, None, false)).collect();
        self.mutate("mark_many_as_tombstone", keyspace, items, true)
            .await
            .map_err(|(e, ids)| BulkMutationError::new(e, ids))
    }

    async fn get(&self, keyspace: &str, doc_id: Key) -> Result<Option<Document>, Self::Error> {
        let mut st = self.st.lock();
        st.reads += 1;
        st.doc_reads += 1;
        if st.read_faults.contains(&st.doc_reads) {
            st.faults_fired += 1;
            return Err(SimError(format!("injected storage failure at document read {}", st.doc_reads)));
        }
        Ok(st
            .rows
            .get(keyspace)
            .and_then(|m| m.get(&doc_id))
            .and_then(|r| r.data.as_ref().map(|d| Document::new(doc_id, r.ts, d.clone()))))
    }

    async fn multi_get(&self, keyspace: &str, doc_ids: impl Iterator<Item = Key> + Send) -> Result<Self::DocsIter, Self::Error> {
        let mut st = self.st.lock();
        st.reads += 1;
        st.doc_reads += 1;
        if st.read_faults.contains(&st.doc_reads) {
            st.faults_fired += 1;
            return Err(SimError(format!("injected storage failure at document read {}", st.doc_reads)));
        }
        let mut out = Vec::new();
        if let Some(m) = st.rows.get(keyspace) {
            for id in doc_ids {
                if let Some(r) = m.get(&id) {
                    if let Some(d) = &r.data {
                        out.push(Document::new(id, r.ts, d.clone()));
                    }
                }
            }
        }
        Ok(out.into_iter())
    }
}

// ------------------------------------------------------------------------------------------

/// Builds a fresh paused current-thread runtime.
pub fn new_runtime() -> tokio::runtime::Runtime {
    tokio::runtime::Builder::new_current_thread()
        .enable_time()
        .start_paused(true)
        .build()
        .expect("runtime")
}

/// Installs a wall clock that follows tokio's virtual time: `base_ms` datacake ms at the moment of
/// the first reading in each runtime, plus `offset` accumulated over earlier runtimes (restarts).
pub struct VirtualWall {
    pub base_ms: u64,
    /// extra ms added (clock jumps, carried-over time across restarts)
    pub extra_ms: Arc<std::sync::atomic::AtomicI64>,
    start: Arc<Mutex<Option<tokio::time::Instant>>>,
}

impl VirtualWall {
    pub fn install(base_ms: u64) -> VirtualWall {
        let extra = Arc::new(std::sync::atomic::AtomicI64::new(0));
        let start: Arc<Mutex<Option<tokio::time::Instant>>> = Arc::new(Mutex::new(None));
        let (e2, s2) = (extra.clone(), start.clone());
        datacake_crdt::verif::set_wall_clock(Some(Box::new(move |_node| {
            let now = tokio::time::Instant::now();
            let mut s = s2.lock();
            let st = *s.get_or_insert(now);
            let el = now.saturating_duration_since(st).as_millis() as i64;
            let ms = base_ms as i64 + el + e2.load(Ordering::SeqCst);
            DATACAKE_EPOCH + Duration::from_millis(ms.max(0) as u64)
        })));
        VirtualWall { base_ms, extra_ms: extra, start }
    }
    /// Current datacake ms as the injected clock would report it (must be called inside a runtime).
    pub fn now_ms(&self) -> u64 {
        let now = tokio::time::Instant::now();
        let mut s = self.start.lock();
        let st = *s.get_or_insert(now);
        (self.base_ms as i64 + now.saturating_duration_since(st).as_millis() as i64 + self.extra_ms.load(Ordering::SeqCst)).max(0) as u64
    }
    /// Call when a runtime is dropped: keeps the wall clock continuous across the restart.
    pub fn carry_over(&self, elapsed_ms: u64) {
        self.extra_ms.fetch_add(elapsed_ms as i64, Ordering::SeqCst);
        *self.start.lock() = None;
    }
}

impl Drop for VirtualWall {
    fn drop(&mut self) {
        datacake_crdt::verif::set_wall_clock(None);
    }
}

pub fn decode_set(bytes: &[u8]) -> Result<OrSWotSet<2>, String> {
    let mut aligned = rkyv::AlignedVec::with_capacity(bytes.len());
    aligned.extend_from_slice(bytes);
    rkyv::from_bytes::<OrSWotSet<2>>(&aligned).map_err(|e| format!("serialized set failed validation: {e}"))
}

pub fn set_listing(s: &OrSWotSet<2>) -> Listing {
    let (mut live, mut dead) = OrSWotSet::<2>::default().diff(s);
    live.sort();
    dead.sort();
    (live, dead)
}

pub fn fmt_ts(t: HLCTimestamp) -> String {
    format!("{}ms/c{}/n{}", t.datacake_timestamp().as_millis(), t.counter(), t.node())
}

pub fn fmt_list(l: &[(Key, HLCTimestamp)]) -> String {
    let v: Vec<String> = l.iter().map(|(k, t)| format!("{k}@{}", fmt_ts(*t))).collect();
    format!("[{}]", v.join(", "))
}

/// Runs `fut` on `rt` until it completes or the storage parks (crash point reached).
/// Returns None when parked.
pub fn block_on_until_parked<F: Future>(rt: &tokio::runtime::Runtime, storage: &SimStorage, fut: F) -> Option<F::Output> {
    let notify = storage.parked_notify.clone();
    rt.block_on(async move {
        tokio::pin!(fut);
        tokio::select! {
            biased;
            r = &mut fut => Some(r),
            _ = notify.notified() => None,
        }
    })
}
