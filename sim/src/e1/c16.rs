//! C16 — membership change events add up to the live membership.

use std::cell::RefCell;
use std::collections::BTreeMap;
use std::net::{IpAddr, SocketAddr};
use std::rc::Rc;
use std::time::Duration;

use datacake_node::verif as nv;
use datacake_node::{Clock, ClusterMember, ClusterStatistics, DCAwareSelector, MembershipChange, RpcNetwork};
use futures::StreamExt;
use rand::Rng;
use serde::{Deserialize, Serialize};
use serde_json::Value;
use tokio::sync::watch;
use tokio_stream::wrappers::WatchStream;

use super::*;
use crate::framework::*;

/// node id -> address variant (a node that comes back on another address gets another variant)
pub type Snapshot = BTreeMap<u8, u8>;

#[derive(Serialize, Deserialize, Clone, Debug)]
pub struct SnapEv {
    pub at_ms: u64,
    pub members: Snapshot,
}

#[derive(Serialize, Deserialize, Clone, Debug)]
pub struct Subscriber {
    pub attach_ms: u64,
    /// virtual ms the subscriber spends after handling each change (0 = reads at once)
    pub read_delay_ms: u64,
}

#[derive(Serialize, Deserialize, Clone, Debug)]
pub struct Scenario {
    pub events: Vec<SnapEv>,
    pub subscribers: Vec<Subscriber>,
}

pub struct C16;

const SELF_ID: u8 = 0;

/// variants below 8 are addresses of the node's own (10.0.variant.id); variants from 8 up are
/// host slots any node id can occupy (10.9.0.slot): a machine that is given a new node id, or a
/// replacement node started on the address of the one it replaces
const SHARED_SLOT: u8 = 8;

fn addr_of(id: u8, variant: u8) -> SocketAddr {
    if variant >= SHARED_SLOT {
        return SocketAddr::new(IpAddr::from([10, 9, 0, variant - SHARED_SLOT]), 9000);
    }
    SocketAddr::new(IpAddr::from([10, 0, variant, id]), 9000)
}

fn membership(s: &Snapshot) -> nv::NodeMembership {
    let mut m = nv::NodeMembership::new();
    m.insert(SELF_ID, ClusterMember::new(SELF_ID, addr_of(SELF_ID, 0), "dc".into()));
    for (id, v) in s {
        if *id != SELF_ID {
            m.insert(*id, ClusterMember::new(*id, addr_of(*id, *v), "dc".into()));
        }
    }
    m
}

impl Check for C16 {
    fn id(&self) -> &'static str {
        "C16"
    }
    fn title(&self) -> &'static str {
        "Membership change events add up to the live membership"
    }
    fn engine(&self) -> &'static str {
        "E1 single-node engine: the real datacake-node watch_membership_changes task fed harness-made membership snapshots; subscribers obtained from the real DatacakeHandle::membership_changes at seeded moments, reading with seeded delays and folding joined/left into a set"
    }
    fn rule(&self) -> &'static str {
        "Cases: 1-7 membership snapshots over node ids {1,2,3,4} (join, leave, rejoin, rejoin on another address; in a third of the cases the nodes live on 2-3 host slots not tied to a node id and a departing node is often replaced, within the same snapshot, by another id on the very same address) at seeded virtual times, 1-3 subscribers attaching before, between or after snapshots and spending 0-40 virtual ms per handled change. In thorough tier all snapshot sequences of length <= 3 over ids {1,2} x 2 address variants with one subscriber at every attach point x {fast, slow} are enumerated first. Real-cluster arm (1 case in 127): 2-4 complete nodes (DatacakeNodeBuilder::connect + store extension) under link holds (short, and long enough for the failure detector), crash/restart, moves to another address, clock jumps; a subscriber attached at node start sums every change; once all views stood still for 2 simulated seconds its sum must equal the membership layer's own view minus the node, 240 quiet simulated seconds after the last fault the layer must describe exactly the running nodes at their current addresses - judged a first time while the nodes that crashed \"until the faults stop\" (up to all but one) are still gone, then again after they came back -, and (also in a second cluster family with harness-made views, anti-entropy switched off and nodes coming back on another address) a level-None write issued on every node after the faults must reach every other live node by direct replication within 4 simulated seconds; in that second family one running node is then reported as having left to all the others (members may also have been re-named with another data centre, same id and address, during the run) and nothing the others write 3 s later may be delivered to it. Oracle at quiescence (1 s after the last snapshot): each subscriber's folded set (id -> address) equals the last snapshot minus the local node; a monitor that subscribed before the first snapshot and reads at once must have been told `left` with the old address for every disappearance and address change. Non-trivial = >= 2 snapshots that differ. Distinct = hash of (snapshot sequence, subscriber timing)."
    }
    fn assumptions(&self) -> Vec<String> {
        vec![
            "E1 cases: chitchat is a stub, snapshots are supplied by the harness through the same watch channel type ChitchatNode uses. Real-cluster arm: the gossip layer is the vendored datacake-chitchat-fork 0.5.1 with three replay patches (tokio's virtual Instant, seeded generators, seed-ordered ready set); membership is judged against what that layer reports, not against which hosts are up".into(),
            "a subscriber is any component using DatacakeHandle::membership_changes(), as the eventual-consistency store does".into(),
        ]
    }
    fn components(&self) -> Vec<(&'static str, &'static str)> {
        vec![
            ("datacake-node watch_membership_changes, MembershipChange watch channel, DatacakeHandle::membership_changes, RpcNetwork, selector actor", "real"),
            ("chitchat gossip / failure detector", "stub: harness-supplied snapshots (E1 cases); real-cluster arm (1 case in 127): the vendored fork with virtual time and seeded randomness, ChitchatNode, ChitchatTransport/ChitchatService over the simulated network, DatacakeNodeBuilder::connect"),
        ]
    }
    fn budget(&self, tier: Tier) -> Budget {
        match tier {
            Tier::Quick => Budget { wall_secs: 60, max_cases: 300_000, checkpoint_every: 256, workers: 16 },
            Tier::Thorough => Budget { wall_secs: 600, max_cases: 20_000_000, checkpoint_every: 256, workers: 16 },
        }
    }
    fn generate(&self, seed: u64, idx: u64, _tier: Tier) -> Value {
        let mut rng = rng_from(case_seed(seed, idx));
        // real-cluster arm: complete nodes built with the public API, membership from the real
        // gossip layer over the simulated network; a subscriber per node sums the changes
        if let Ok(ordinal) = arm_split(idx, 127) {
            if ordinal % 2 == 0 {
                let mut sc = crate::e2::c01::gen_real_scenario(&mut rng);
                sc.probe_direct = true;
                return serde_json::json!({ "cluster": sc });
            }
            // harness-made membership views, anti-entropy off: a node comes back on another
            // address (left + joined of one id in a single change), then direct replication must
            // still reach every live peer
            let k = crate::e2::c01::GenKnobs { max_nodes: 4, max_ops: 12, span_ms: 8_000, level_bias_none: 0.7, ghosts: 0.6, big_bulk: 0.0 };
            let mut sc = crate::e2::c01::gen_cluster_scenario(&mut rng, &k);
            sc.cfg.repair_interval_ms = 3_600_000;
            sc.closing_mode = "explicit".into();
            sc.probe_direct = true;
            let ids: Vec<u8> = sc.cfg.nodes.iter().map(|n| n.id).collect();
            for n in sc.cfg.nodes.iter_mut() {
                n.storage_faults.clear();
                n.storage_read_faults.clear();
            }
            let span = sc.events.iter().map(|e| e.t()).max().unwrap_or(1_000).max(1_000);
            for _ in 0..rng.gen_range(1..=2) {
                let node = ids[rng.gen_range(0..ids.len())];
                let mt = rng.gen_range(200..span);
                sc.events.push(crate::e2::c01::Ev::Move { t: mt, node });
                for p in &ids {
                    if *p != node {
                        sc.events.push(crate::e2::c01::Ev::View { t: mt + rng.gen_range(20..900), node: *p, members: ids.clone() });
                    }
                }
            }
            // half of these cases: a member is named with another data centre from some moment on
            // (same id, same address)
            if rng.gen_bool(0.5) {
                for _ in 0..rng.gen_range(1..=2) {
                    let node = ids[rng.gen_range(0..ids.len())];
                    sc.events.push(crate::e2::c01::Ev::DcChange { t: rng.gen_range(100..span), node, dc: ["dc0", "dc1", "elsewhere"][rng.gen_range(0..3)].to_string() });
                }
            }
            sc.events.sort_by_key(|e| e.t());
            return serde_json::json!({ "cluster": sc });
        }
        let ids = rng.gen_range(1..=4u8);
        let n = rng.gen_range(1..=7);
        // a third of the cases: nodes live on 2-3 host slots that are not tied to a node id, and a
        // node that goes is often replaced, in the same snapshot, by another id on its address
        let slots = if ids >= 2 && rng.gen_bool(0.34) { rng.gen_range(2..=3u8) } else { 0 };
        let mut events = Vec::new();
        let mut cur = Snapshot::new();
        let mut t = rng.gen_range(0..20);
        for _ in 0..n {
            // mutate the current membership a little
            for _ in 0..rng.gen_range(1..=2) {
                let id = rng.gen_range(1..=ids);
                if slots > 0 {
                    let free_slot = |cur: &Snapshot, rng: &mut rand::rngs::SmallRng| -> Option<u8> {
                        let free: Vec<u8> = (0..slots).map(|s| SHARED_SLOT + s).filter(|v| !cur.values().any(|x| x == v)).collect();
                        if free.is_empty() { None } else { Some(free[rng.gen_range(0..free.len())]) }
                    };
                    if let Some(v) = cur.remove(&id) {
                        // replaced in place by an id that is not a member right now?
                        let absent: Vec<u8> = (1..=ids).filter(|i| *i != id && !cur.contains_key(i)).collect();
                        if !absent.is_empty() && rng.gen_bool(0.6) {
                            cur.insert(absent[rng.gen_range(0..absent.len())], v);
                        }
                    } else if let Some(v) = free_slot(&cur, &mut rng) {
                        cur.insert(id, v);
                    }
                    continue;
                }
                if cur.contains_key(&id) {
                    if rng.gen_bool(0.7) {
                        cur.remove(&id);
                    } else {
                        cur.insert(id, rng.gen_range(0..3));
                    }
                } else {
                    cur.insert(id, if rng.gen_bool(0.8) { 0 } else { rng.gen_range(0..3) });
                }
            }
            events.push(SnapEv { at_ms: t, members: cur.clone() });
            t += if rng.gen_bool(0.3) { 1 } else { rng.gen_range(1..60) };
        }
        let mut subscribers = Vec::new();
        for _ in 0..rng.gen_range(1..=3) {
            subscribers.push(Subscriber { attach_ms: if rng.gen_bool(0.4) { 0 } else { rng.gen_range(0..t + 10) }, read_delay_ms: if rng.gen_bool(0.5) { 0 } else { rng.gen_range(1..40) } });
        }
        serde_json::to_value(Scenario { events, subscribers }).unwrap()
    }
    fn isolate(&self, scenario: &Value) -> bool {
        scenario.get("cluster").is_some()
    }
    fn execute(&self, scenario: &Value) -> Outcome {
        if let Some(c) = scenario.get("cluster") {
            let sc: crate::e2::c01::Scenario = match serde_json::from_value(c.clone()) {
                Ok(s) => s,
                Err(e) => return Outcome::invalid(format!("bad cluster scenario: {e}")),
            };
            return match crate::e2::c01::run_cluster(&sc, "C16") {
                Ok(mut r) => {
                    for d in r.membership_diffs.clone() {
                        r.out.violate("C16/real-cluster/subscriber-sum-differs-from-membership-layer", d);
                    }
                    // every node that disappears is reported as having left with the address it had,
                    // every node that is there is reported: 240 quiet simulated seconds after the last
                    // fault the layer must describe the running nodes at their current addresses
                    if !r.direct_misses.is_empty() {
                        r.out.violate("C16/cluster/live-peer-not-addressed-by-direct-replication", r.direct_misses.join("; "));
                    }
                    if !r.direct_departed.is_empty() {
                        r.out.violate("C16/cluster/departed-peer-still-addressed-by-direct-replication", r.direct_departed.join("; "));
                    }
                    if !r.membership_stale.is_empty() {
                        r.out.violate("C16/real-cluster/membership-does-not-describe-the-running-nodes", format!("240 simulated seconds after the last fault: {}", r.membership_stale.join("; ")));
                    }
                    // convergence and the closing exchanges are C01's business
                    r.out.violations.retain(|v| v.class.starts_with("C16/real-cluster/") || v.class.starts_with("C16/cluster/") || v.class.contains("/panic@"));
                    r.out.probe("real_cluster_arm_case");
                    r.out.nontrivial = r.out.faults.values().sum::<u64>() > 0;
                    r.out
                },
                Err(e) => Outcome::invalid(e),
            };
        }
        let sc: Scenario = match serde_json::from_value(scenario.clone()) {
            Ok(s) => s,
            Err(e) => return Outcome::invalid(format!("bad scenario: {e}")),
        };
        if sc.events.windows(2).any(|w| w[1].at_ms <= w[0].at_ms) {
            return Outcome::invalid("snapshots must be strictly time ordered");
        }
        let mut out = Outcome::default();
        let rt = new_runtime();
        let _wall = VirtualWall::install(20_000_000_000);
        let end_ms = sc.events.last().map(|e| e.at_ms).unwrap_or(0) + 1000 + sc.subscribers.iter().map(|s| s.read_delay_ms * 10).max().unwrap_or(0);
        type Folded = BTreeMap<u8, SocketAddr>;
        let folded: Rc<RefCell<Vec<Folded>>> = Rc::new(RefCell::new(vec![Folded::new(); sc.subscribers.len()]));
        // monitor: (joined ids+addr, left ids+addr) per delivered change
        let monitor: Rc<RefCell<Vec<(Vec<(u8, SocketAddr)>, Vec<(u8, SocketAddr)>)>>> = Rc::new(RefCell::new(Vec::new()));
        rt.block_on(async {
            let clock = Clock::new(SELF_ID);
            let network = RpcNetwork::default();
            let selector = nv::start_node_selector(addr_of(SELF_ID, 0), "dc".into(), DCAwareSelector::default()).await;
            let stats = ClusterStatistics::default();
            let me = ClusterMember::new(SELF_ID, addr_of(SELF_ID, 0), "dc".into());
            let (mtx, mrx) = watch::channel(membership(&Snapshot::new()));
            let (ctx, crx) = watch::channel(MembershipChange::default());
            tokio::spawn(nv::watch_membership_changes(SELF_ID, network.clone(), selector.clone(), stats.clone(), WatchStream::new(mrx), ctx));
            let handle = nv::new_handle(me, clock, network, selector, stats, crx);
            let local = tokio::task::LocalSet::new();
            let start = tokio::time::Instant::now();
            {
                let (h, mon) = (handle.clone(), monitor.clone());
                local.spawn_local(async move {
                    let mut s = h.membership_changes();
                    while let Some(ch) = s.next().await {
                        mon.borrow_mut().push((ch.joined.iter().map(|m| (m.node_id, m.public_addr)).collect(), ch.left.iter().map(|m| (m.node_id, m.public_addr)).collect()));
                    }
                });
            }
            for (i, sub) in sc.subscribers.iter().enumerate() {
                let (h, sub, folded) = (handle.clone(), sub.clone(), folded.clone());
                local.spawn_local(async move {
                    tokio::time::sleep_until(start + Duration::from_millis(sub.attach_ms)).await;
                    let mut s = h.membership_changes();
                    while let Some(ch) = s.next().await {
                        {
                            let mut f = folded.borrow_mut();
                            for m in &ch.left {
                                f[i].remove(&m.node_id);
                            }
                            for m in &ch.joined {
                                f[i].insert(m.node_id, m.public_addr);
                            }
                        }
                        if sub.read_delay_ms > 0 {
                            tokio::time::sleep(Duration::from_millis(sub.read_delay_ms)).await;
                        }
                    }
                });
            }
            let evs = sc.events.clone();
            local
                .run_until(async move {
                    // let the watcher consume the initial (empty) snapshot first
                    tokio::task::yield_now().await;
                    for e in evs {
                        tokio::time::sleep_until(start + Duration::from_millis(e.at_ms) + Duration::from_micros(500)).await;
                        let _ = mtx.send(membership(&e.members));
                    }
                    tokio::time::sleep_until(start + Duration::from_millis(end_ms)).await;
                })
                .await;
        });
        drop(rt);
        let last: Folded = sc.events.last().map(|e| e.members.iter().filter(|(id, _)| **id != SELF_ID).map(|(id, v)| (*id, addr_of(*id, *v))).collect()).unwrap_or_default();
        let folded = folded.borrow();
        let first_snap = sc.events.first().map(|e| e.at_ms).unwrap_or(0);
        for (i, sub) in sc.subscribers.iter().enumerate() {
            if folded[i] != last {
                let stale: Vec<_> = folded[i].iter().filter(|(k, a)| last.get(*k) != Some(*a)).collect();
                let missing: Vec<_> = last.iter().filter(|(k, a)| folded[i].get(*k) != Some(*a)).collect();
                let late = sub.attach_ms > first_snap;
                let slow = sub.read_delay_ms > 0;
                // a subscriber that attached before the first change and reads at once sees every
                // change: whatever it gets wrong is the producer's fault. A late or slow one can
                // additionally lose whole changes (they travel through a latest-value channel).
                let class = if late {
                    "C16/late-subscriber-misses-earlier-changes"
                } else if slow {
                    "C16/slow-subscriber-misses-changes"
                } else if !stale.is_empty() && missing.is_empty() {
                    "C16/subscriber-keeps-departed-node"
                } else {
                    "C16/subscriber-set-differs-from-live-membership"
                };
                out.violate(
                    class,
                    format!("subscriber {i} (attached at {} ms, {} ms per change) folded {:?} but the live membership is {:?} (stale {:?}, missing {:?})", sub.attach_ms, sub.read_delay_ms, folded[i], last, stale, missing),
                );
            }
        }
        // every disappearance / address change must have been reported as left with the old address
        let mon = monitor.borrow();
        let mut prev = Folded::new();
        let mut expected_left: Vec<(u8, SocketAddr)> = Vec::new();
        for e in &sc.events {
            let cur: Folded = e.members.iter().filter(|(id, _)| **id != SELF_ID).map(|(id, v)| (*id, addr_of(*id, *v))).collect();
            for (id, a) in &prev {
                if cur.get(id) != Some(a) {
                    expected_left.push((*id, *a));
                }
            }
            prev = cur;
        }
        let reported_left: Vec<(u8, SocketAddr)> = mon.iter().flat_map(|(_, l)| l.iter().copied()).collect();
        for el in &expected_left {
            if !reported_left.contains(el) {
                out.violate("C16/departure-not-reported-as-left-with-old-address", format!("node {} at {} disappeared but no change listed it in `left` (reported left: {:?})", el.0, el.1, reported_left));
            }
        }
        out.fault_n("node_left_or_moved", expected_left.len() as u64);
        out.fault_n("late_subscriber", sc.subscribers.iter().filter(|s| s.attach_ms > first_snap).count() as u64);
        out.fault_n("slow_subscriber", sc.subscribers.iter().filter(|s| s.read_delay_ms > 0).count() as u64);
        let distinct_snaps = sc.events.windows(2).filter(|w| w[0].members != w[1].members).count();
        out.nontrivial = distinct_snaps >= 1;
        let mut tr = Fnv::new();
        for (j, l) in mon.iter() {
            tr.u64(j.len() as u64).u64(l.len() as u64);
            for (id, a) in j.iter().chain(l.iter()) {
                tr.u64(*id as u64).str(&a.to_string());
            }
        }
        for f in folded.iter() {
            for (id, a) in f {
                tr.u64(*id as u64).str(&a.to_string());
            }
            tr.u64(0xff);
        }
        out.trace_hash = tr.finish();
        let mut sig = Fnv::new();
        sig.str(&serde_json::to_string(&sc).unwrap());
        out.signature = sig.finish();
        out.state_fp = tr.finish();
        out.sim_ms = end_ms;
        out
    }
    fn shrink(&self, sc: &Value) -> Vec<Value> {
        if let Some(c) = sc.get("cluster") {
            return crate::e2::c01::shrink_cluster(c).into_iter().map(|v| serde_json::json!({ "cluster": v })).collect();
        }
        let mut c = generic_shrink(sc);
        if let Some(subs) = sc["subscribers"].as_array() {
            if subs.len() > 1 {
                for i in 0..subs.len() {
                    let mut v = sc.clone();
                    v["subscribers"].as_array_mut().unwrap().remove(i);
                    c.push(v);
                }
            }
            for i in 0..subs.len() {
                for (k, z) in [("read_delay_ms", 0u64), ("attach_ms", 0u64)] {
                    if subs[i][k].as_u64().unwrap_or(0) > z {
                        let mut v = sc.clone();
                        v["subscribers"][i][k] = serde_json::json!(z);
                        c.push(v);
                    }
                }
            }
        }
        c
    }
}
