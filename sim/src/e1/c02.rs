//! C02 — on each node the replicated metadata and the persisted store never disagree.

use std::collections::BTreeSet;

use datacake_eventual_consistency::verif as ecv;
use rand::Rng;
use serde::{Deserialize, Serialize};
use serde_json::Value;

use super::requests::*;
use super::*;
use crate::framework::*;

#[derive(Serialize, Deserialize, Clone, Debug)]
pub struct Scenario {
    pub base_ms: u64,
    pub store: StoreCfg,
    /// requests of one group are issued concurrently (after their delay_ms); groups run in order
    pub events: Vec<Vec<Req>>,
    pub keyspaces: Vec<String>,
    /// "random" scenarios come from the seeded generator; "enum" ones from the fault-position sweep
    #[serde(default)]
    pub origin: String,
}

pub struct C02;

pub fn execute_scenario(sc: &Scenario, class_prefix: &str) -> Outcome {
    execute_scenario_with(sc, class_prefix, None)
}

/// `advert_class`: also demand that whenever a request group changes what a keyspace holds (a
/// live entry or a tombstone appears or changes; tombstones merely disappearing is a purge and does
/// not count), the change timestamp the node advertises for that keyspace moves too - peers skip
/// a keyspace whose advertised timestamp they have already synced.
pub fn execute_scenario_with(sc: &Scenario, class_prefix: &str, advert_class: Option<&str>) -> Outcome {
    let mut out = Outcome::default();
    let rt = new_runtime();
    let wall = VirtualWall::install(sc.base_ms);
    let storage = SimStorage::default();
    apply_store_cfg(&storage, &sc.store);
    let st2 = storage.clone();
    let mut sig = Fnv::new();
    let abandoned_total = std::rc::Rc::new(std::cell::RefCell::new(0u64));
    let res: Result<(), String> = rt.block_on(async {
        let node = Node::boot(st2).await?;
        let mut named: BTreeSet<String> = sc.keyspaces.iter().cloned().collect();
        // keyspaces are created one at a time (concurrent first use is C18's subject)
        for ks in &named {
            let _ = node.group.get_or_create_keyspace(ks).await;
        }
        let node = std::rc::Rc::new(node);
        for (gi, group) in sc.events.iter().enumerate() {
            for r in group {
                if !named.contains(&r.ks) {
                    let _ = node.group.get_or_create_keyspace(&r.ks).await;
                    named.insert(r.ks.clone());
                }
            }
            let mut before: std::collections::BTreeMap<String, (crate::e1::Listing, Option<datacake_crdt::HLCTimestamp>)> = Default::default();
            if advert_class.is_some() {
                let info = node.group.get_keyspace_info().await;
                for ks in &named {
                    if let Ok(l) = node.set_of(ks).await {
                        before.insert(ks.clone(), (l, info.keyspace_timestamps.get(ks).copied()));
                    }
                }
            }
            let local = tokio::task::LocalSet::new();
            let results = std::rc::Rc::new(std::cell::RefCell::new(Vec::new()));
            let abandoned = abandoned_total.clone();
            // advertised-state arm: peers fetch the keyspace state (GetState through the real
            // ReplicationService handler) while the group's requests are in progress; every reply
            // is kept as (change timestamp sent with it, listing of the state sent)
            let served: std::rc::Rc<std::cell::RefCell<Vec<(String, datacake_crdt::HLCTimestamp, crate::e1::Listing)>>> = Default::default();
            if advert_class.is_some() {
                let repl = std::rc::Rc::new(ecv::ReplicationService::new(node.group.clone()));
                // one fetch per scheduling hop around the moment a writer of that keyspace starts:
                // the handler talks to the keyspace actor more than once per reply, and a write
                // may land between any two of those messages
                for ks in group.iter().map(|r| r.ks.clone()).collect::<BTreeSet<_>>() {
                    let delay = group.iter().find(|r| r.ks == ks).map(|r| r.delay_ms).unwrap_or(0);
                    let hops = 4 + mix(0x6E75, gi as u64) % 9;
                    for h in 0..hops {
                        let (node, repl, served, ks) = (node.clone(), repl.clone(), served.clone(), ks.clone());
                        local.spawn_local(async move {
                            if delay > 0 {
                                tokio::time::sleep(std::time::Duration::from_millis(delay)).await;
                            }
                            for _ in 0..h {
                                tokio::task::yield_now().await;
                            }
                            let msg_ts = node.clock.get_time().await;
                            let req = datacake_rpc::Request::using_owned(ecv::GetState { keyspace: ks.clone(), timestamp: msg_ts }).await;
                            if let Ok(rep) = datacake_rpc::Handler::<ecv::GetState>::on_message(repl.as_ref(), req).await {
                                if let Ok(set) = decode_set(&rep.set) {
                                    served.borrow_mut().push((ks, rep.last_updated, set_listing(&set)));
                                }
                            }
                        });
                    }
                }
            }
            for (ri, r) in group.iter().enumerate() {
                let node = node.clone();
                let r = r.clone();
                let results = results.clone();
                let abandoned = abandoned.clone();
                local.spawn_local(async move {
                    if r.delay_ms > 0 {
                        tokio::time::sleep(std::time::Duration::from_millis(r.delay_ms)).await;
                    }
                    let tag = format!("g{gi}r{ri}");
                    let res = match r.give_up_after_polls {
                        None => issue(&node, &tag, &r).await,
                        Some(k) => match GiveUpAfterPolls::new(issue(&node, &tag, &r), k).await {
                            Some(res) => res,
                            None => {
                                // abandoned half-way: nothing was acknowledged to anybody
                                *abandoned.borrow_mut() += 1;
                                Ok(false)
                            },
                        },
                    };
                    results.borrow_mut().push((ri, res));
                });
            }
            if tokio::time::timeout(std::time::Duration::from_secs(48 * 3600), local).await.is_err() {
                return Err("harness: a request was never answered".to_string());
            }
            let mut results = results.borrow().clone();
            results.sort_by_key(|x| x.0);
            for (ri, res) in results {
                match res {
                    Ok(acked) => {
                        sig.u64(gi as u64).u64(ri as u64).u64(acked as u64);
                    },
                    Err(e) => return Err(e),
                }
            }
            if advert_class.is_some() {
                // a peer that fetched (timestamp L, state S) skips the keyspace for as long as the
                // node advertises L: nothing the node holds under L may be missing from S
                let info = node.group.get_keyspace_info().await;
                let served = served.borrow();
                if std::env::var_os("DCSIM_DEBUG").is_some() {
                    for (ks, l, (live, dead)) in served.iter() {
                        eprintln!("group {gi}: served {ks} L={} live {} dead {} (advertised now {:?})", crate::e1::fmt_ts(*l), crate::e1::fmt_list(live), crate::e1::fmt_list(dead), info.keyspace_timestamps.get(ks).map(|t| crate::e1::fmt_ts(*t)));
                    }
                }
                for (i, (ks, l, (live, dead))) in served.iter().enumerate() {
                    // (two replies are not compared with each other: a reply's state may be newer
                    // than the timestamp sent with it, which only makes the peer fetch once more)
                    let _ = i;
                    let mut later: Vec<(String, crate::e1::Listing)> = Vec::new();
                    if info.keyspace_timestamps.get(ks).copied() == Some(*l) {
                        if let Ok(now) = node.set_of(ks).await {
                            later.push(("the state at the end of the group".to_string(), now));
                        }
                    }
                    out.probe_n("served_states_compared", later.len() as u64);
                    for (what, (live2, dead2)) in later {
                        let gained: Vec<_> = live2.iter().filter(|x| !live.contains(x)).chain(dead2.iter().filter(|x| !dead.contains(x))).copied().collect();
                        if !gained.is_empty() {
                            out.violate(
                                "C01/served-state-lags-the-change-timestamp-sent-with-it",
                                format!("request group {gi}: a GetState reply for keyspace {ks} carried change timestamp {} with live {} / tombstones {}, but {what} under the same change timestamp also holds {}", crate::e1::fmt_ts(*l), crate::e1::fmt_list(live), crate::e1::fmt_list(dead), crate::e1::fmt_list(&gained)),
                            );
                            break;
                        }
                    }
                }
            }
            if let Some(class) = advert_class {
                let info = node.group.get_keyspace_info().await;
                for ks in &named {
                    let Some((l0, t0)) = before.get(ks) else { continue };
                    let Ok(l1) = node.set_of(ks).await else { continue };
                    let live_changed = l0.0 != l1.0;
                    let tomb_gained = l1.1.iter().any(|x| !l0.1.contains(x));
                    if (live_changed || tomb_gained) && info.keyspace_timestamps.get(ks).copied() == *t0 {
                        out.violate(
                            class.to_string(),
                            format!(
                                "request group {gi} ({}) changed keyspace {ks} from {} / {} to {} / {} but the advertised change timestamp stayed {:?}",
                                group.iter().map(|r| r.kind.clone()).collect::<Vec<_>>().join("+"),
                                crate::e1::fmt_list(&l0.0),
                                crate::e1::fmt_list(&l0.1),
                                crate::e1::fmt_list(&l1.0),
                                crate::e1::fmt_list(&l1.1),
                                t0.map(crate::e1::fmt_ts)
                            ),
                        );
                    }
                }
            }
            let fp = check_agreement(&node, &named, &format!("after request group {gi}"), class_prefix, &mut out).await;
            sig.u64(fp);
            out.state_fp = fp;
        }
        Ok(())
    });
    let elapsed = rt.block_on(async { wall.now_ms() }).saturating_sub(sc.base_ms);
    drop(rt);
    drop(wall);
    if let Err(e) = res {
        return Outcome::invalid(e);
    }
    let st = storage.st.lock();
    out.fault_n("storage_call_failed", st.faults_fired);
    out.fault_n("request_abandoned_half_way", *abandoned_total.borrow());
    let partial = st.calls.iter().filter(|c| !c.ok && c.applied > 0 && c.applied < c.items.len()).count() as u64;
    out.fault_n("bulk_call_failed_partway", partial);
    if st.latency_max_ms > 0 {
        out.fault("storage_latency");
    }
    let concurrent = sc.events.iter().filter(|g| g.len() > 1).count() as u64;
    out.fault_n("concurrent_request_group", concurrent);
    let skipped = sc.events.iter().flatten().filter(|r| r.kind != "purge").count() as u64;
    out.probe_n("requests", skipped);
    out.probe_n("storage_mutations", st.mutating_calls);
    for (k, v) in datacake_crdt::verif::take_probes() {
        out.probe_n(k, v);
    }
    let writes = st.calls.iter().filter(|c| c.applied > 0).count();
    out.nontrivial = writes >= 2 && sc.events.iter().flatten().count() >= 3;
    drop(st);
    sig.u64(storage.trace_hash());
    out.signature = sig.finish();
    let mut tr = Fnv::new();
    tr.u64(storage.trace_hash()).u64(out.state_fp).u64(storage.fingerprint());
    out.trace_hash = tr.finish();
    out.sim_ms = elapsed;
    out
}

pub fn gen_history(rng: &mut impl Rng, groups: usize, cfg: &GenCfg, concurrent_p: f64) -> Vec<Vec<Req>> {
    let mut now_off: i64 = 0;
    let mut events = Vec::new();
    for _ in 0..groups {
        let k = if rng.gen_bool(concurrent_p) { rng.gen_range(2..=4) } else { 1 };
        let mut g = Vec::new();
        for _ in 0..k {
            let mut r = gen_req(rng, cfg, &mut now_off);
            if k > 1 {
                r.delay_ms = rng.gen_range(0..4);
            }
            g.push(r);
        }
        events.push(g);
    }
    events
}

/// Fixed histories for the fault-position sweep (index -> history), derived from the seed only.
fn enum_history(seed: u64, h: u64) -> (Scenario, u64) {
    let mut rng = rng_from(mix(mix(seed, 0xE17), h));
    let cfg = GenCfg { keyspaces: 1, ids: rng.gen_range(2..=5), origins: rng.gen_range(1..=3), base_ms: 20_000_000_000, dup_ids: false, allow_purge: rng.gen_bool(0.4), spread_hours: rng.gen_bool(0.5) };
    let groups = rng.gen_range(3..=10);
    let events = gen_history(&mut rng, groups, &cfg, 0.0);
    let sc = Scenario { base_ms: cfg.base_ms, store: StoreCfg::default(), events, keyspaces: vec!["ks0".into()], origin: "enum".into() };
    (sc, 0)
}

const ENUM_HISTORIES_QUICK: u64 = 300;
const ENUM_HISTORIES_THOROUGH: u64 = 5000;
const ENUM_SLOTS: u64 = 64; // (call position 1..=16) x (k 0..=3) per history

impl Check for C02 {
    fn id(&self) -> &'static str {
        "C02"
    }
    fn title(&self) -> &'static str {
        "On each node the replicated metadata and the persisted store never disagree"
    }
    fn level(&self) -> &'static str {
        "exploration"
    }
    fn engine(&self) -> &'static str {
        "E1 single-node engine: real KeyspaceGroup + keyspace actors + ConsistencyService handlers on a paused tokio runtime over SimStorage with a fault plan"
    }
    fn rule(&self) -> &'static str {
        "Cases: (a) fault-position sweep: for fixed seeded request histories, every mutating storage call position 1..16 x every k in 0..3 (single call fails with no effect; bulk call applies exactly k documents, reports them, fails); (b) seeded histories of 3-30 set/multi_set/del/multi_del/batch/purge requests and idle hours (the group's own periodic purge pass then runs, possibly into an injected remove_tombstones failure) through the actor mailbox (both sources) or the ConsistencyService handlers, timestamps from 1-4 origins near 'now', hours old or in the future, bulk calls sharing one timestamp, a fifth of the histories with bulk calls naming one id more than once (any timestamp order), sequential or in concurrent groups of 2-4 with storage latency, random fault plans. One case in 47 is a full E2 cluster scenario (C01's generator, incl. the burst family) judged by the same oracle on every node at the final quiescent point. Oracle after every request group: Serialize reply (validated decode) lists live == store live rows and tombstones == store tombstone rows, per keyspace. Non-trivial = >= 3 requests and >= 2 storage writes. Distinct = hash of the storage-call trace and per-group set fingerprints."
    }
    fn assumptions(&self) -> Vec<String> {
        vec![
            "contract-conforming storage only: a failing call reports exactly the documents it applied (the Storage docs forbid hiding applied changes)".into(),
            "keyspaces are created one at a time here; concurrent first use is C18".into(),
            "the set is observed through the actor's own Serialize message, decoded with rkyv validation".into(),
        ]
    }
    fn components(&self) -> Vec<(&'static str, &'static str)> {
        vec![
            ("KeyspaceGroup, keyspace actors (puppet), ConsistencyService handlers, Clock actor, OrSWotSet", "real"),
            ("Storage", "SimStorage (harness): ordered maps behind the real Storage trait, fault plan, virtual latency"),
            ("network / RPC transport", "not involved (handlers invoked with Request::using_owned)"),
            ("tokio", "real, current_thread, paused clock"),
        ]
    }
    fn budget(&self, tier: Tier) -> Budget {
        match tier {
            Tier::Quick => Budget { wall_secs: 45, max_cases: 120_000, checkpoint_every: 64, workers: 16 },
            Tier::Thorough => Budget { wall_secs: 900, max_cases: 6_000_000, checkpoint_every: 64, workers: 16 },
        }
    }
    fn generate(&self, seed: u64, idx: u64, tier: Tier) -> Value {
        // cluster arm: one case in 47 is a full E2 cluster scenario, judged by the same
        // set-vs-store oracle on every node at the final quiescent point
        let arm = arm_split(idx, 47);
        let idx = match arm {
            Ok(_) => idx,
            Err(main) => main,
        };
        if arm.is_ok() {
            let mut rng = rng_from(case_seed(seed ^ 0xC02E2, idx));
            let k = crate::e2::c01::GenKnobs { max_nodes: 4, max_ops: 30, span_ms: 12_000, level_bias_none: 0.4, ghosts: 0.1, big_bulk: 0.03 };
            let sc = match rng.gen_range(0..10) {
                0..=2 => crate::e2::c01::gen_burst_scenario(&mut rng),
                3..=5 => crate::e2::c01::gen_real_scenario(&mut rng),
                _ => crate::e2::c01::gen_cluster_scenario(&mut rng, &k),
            };
            return serde_json::json!({ "cluster": sc });
        }
        let enum_total = ENUM_SLOTS * if tier == Tier::Quick { ENUM_HISTORIES_QUICK } else { ENUM_HISTORIES_THOROUGH };
        // "mass purge": more than a thousand tombstones of one keyspace become purgeable at once
        if idx >= enum_total && mix(0x9A55, idx) % 97 == 0 {
            let mut rng = rng_from(case_seed(seed ^ 0x9A55, idx));
            let base_ms: u64 = 20_000_000_000;
            let origin: u8 = rng.gen_range(1..=3);
            let t1 = base_ms - 3 * 3_600_000;
            let n = rng.gen_range(1_001..1_400u64);
            let item = |id: u64, t: u64| Item { id, t, c: 0, node: origin };
            let req = |kind: &str, items: Vec<Item>, source: usize| Req { kind: kind.to_string(), ks: "ks0".to_string(), route: "actor".to_string(), source, items, del_items: vec![], delay_ms: 0, give_up_after_polls: None };
            let events = vec![
                vec![req("multi_set", (0..5).map(|i| item(i, t1 - 60_000)).collect(), 0)],
                vec![req("multi_del", (0..n).map(|i| item(i, t1)).collect(), 0)],
                vec![req("set", vec![item(999_999, t1 + 2 * 3_600_000)], 0)],
                vec![req("set", vec![item(999_998, t1 + 2 * 3_600_000 + 4)], 1)],
                vec![req("purge", vec![], 0)],
                vec![req("set", vec![item(7, base_ms - 1_000)], 0)],
                vec![req(if rng.gen_bool(0.5) { "purge" } else { "idle_hour" }, vec![], 0)],
            ];
            return serde_json::to_value(Scenario { base_ms, store: StoreCfg::default(), events, keyspaces: vec!["ks0".into()], origin: "mass-purge".into() }).unwrap();
        }
        if idx < enum_total {
            let h = idx / ENUM_SLOTS;
            let slot = idx % ENUM_SLOTS;
            let (mut sc, _calls) = enum_history(seed, h);
            let call = slot / 4 + 1;
            let k = (slot % 4) as u32;
            sc.store.faults = vec![(call, k)];
            return serde_json::to_value(sc).unwrap();
        }
        let mut rng = rng_from(case_seed(seed, idx));
        let nks = rng.gen_range(1..=3usize);
        let cfg = GenCfg {
            keyspaces: nks,
            ids: rng.gen_range(1..=6),
            origins: rng.gen_range(1..=4),
            base_ms: rng.gen_range(1_000_000_000u64..60_000_000_000) / 4 * 4,
            dup_ids: rng.gen_bool(0.2),
            allow_purge: rng.gen_bool(0.5),
            spread_hours: rng.gen_bool(0.6),
        };
        let groups = rng.gen_range(3..=30);
        let concurrent_p = if rng.gen_bool(0.5) { 0.0 } else { 0.4 };
        let mut events = gen_history(&mut rng, groups, &cfg, concurrent_p);
        // a quarter of the histories: requesters that go away half-way (a closed connection makes
        // the RPC server drop the handler's future at whatever await point it has reached)
        if rng.gen_bool(0.25) {
            for g in events.iter_mut() {
                for r in g.iter_mut() {
                    if r.kind != "idle_hour" && rng.gen_bool(0.3) {
                        r.give_up_after_polls = Some(rng.gen_range(1..=10));
                    }
                }
            }
        }
        let mut store = StoreCfg::default();
        if rng.gen_bool(0.5) {
            store.latency_max_ms = rng.gen_range(1..20);
            store.latency_seed = rng.gen();
        }
        if rng.gen_bool(0.6) {
            for _ in 0..rng.gen_range(1..=4) {
                store.faults.push((rng.gen_range(1..=(groups as u64 + 4)), rng.gen_range(0..=4)));
            }
        }
        let keyspaces = (0..nks).map(|i| format!("ks{i}")).collect();
        serde_json::to_value(Scenario { base_ms: cfg.base_ms, store, events, keyspaces, origin: "random".into() }).unwrap()
    }
    fn isolate(&self, scenario: &Value) -> bool {
        scenario.get("cluster").is_some()
    }
    fn execute(&self, scenario: &Value) -> Outcome {
        if let Some(c) = scenario.get("cluster") {
            let sc: crate::e2::c01::Scenario = match serde_json::from_value(c.clone()) {
                Ok(s) => s,
                Err(e) => return Outcome::invalid(format!("bad cluster scenario: {e}")),
            };
            return match crate::e2::c01::run_cluster(&sc, "C02") {
                Ok(mut r) => {
                    for (n, diffs) in r.set_store_diffs.clone() {
                        if !diffs.is_empty() {
                            r.out.violate("C02/cluster-node-set-and-store-disagree-at-quiescence", format!("node {n}: {}", diffs.join("; ")));
                        }
                    }
                    // the closing exchanges are C01's business, not this property's
                    r.out.violations.retain(|v| !v.class.ends_with("/closing-repair-exchange-does-not-complete"));
                    r.out.probe("cluster_arm_case");
                    r.out.nontrivial = r.issued.len() >= 2;
                    r.out
                },
                Err(e) => Outcome::invalid(e),
            };
        }
        let sc: Scenario = match serde_json::from_value(scenario.clone()) {
            Ok(s) => s,
            Err(e) => return Outcome::invalid(format!("bad scenario: {e}")),
        };
        execute_scenario(&sc, "C02")
    }
    fn shrink(&self, sc: &Value) -> Vec<Value> {
        if let Some(c) = sc.get("cluster") {
            return crate::e2::c01::shrink_cluster(c).into_iter().map(|v| serde_json::json!({ "cluster": v })).collect();
        }
        shrink_groups(sc)
    }
}

/// Shrinking for scenarios whose `events` is a list of request groups.
pub fn shrink_groups(sc: &Value) -> Vec<Value> {
    let mut c = generic_shrink(sc);
    let Some(groups) = sc.get("events").and_then(|e| e.as_array()) else { return c };
    // split / thin concurrent groups, drop items of bulk requests
    for (gi, g) in groups.iter().enumerate() {
        let Some(reqs) = g.as_array() else { continue };
        if reqs.len() > 1 {
            for ri in 0..reqs.len() {
                let mut v = sc.clone();
                v["events"][gi].as_array_mut().unwrap().remove(ri);
                c.push(v);
            }
        }
        for (ri, r) in reqs.iter().enumerate() {
            for key in ["items", "del_items"] {
                if let Some(items) = r.get(key).and_then(|i| i.as_array()) {
                    if items.len() > 1 || (key == "del_items" && !items.is_empty()) {
                        for ii in 0..items.len() {
                            let mut v = sc.clone();
                            v["events"][gi][ri][key].as_array_mut().unwrap().remove(ii);
                            c.push(v);
                        }
                    }
                }
            }
            if r.get("delay_ms").and_then(|d| d.as_u64()).unwrap_or(0) > 0 {
                let mut v = sc.clone();
                v["events"][gi][ri]["delay_ms"] = serde_json::json!(0);
                c.push(v);
            }
        }
    }
    if let Some(store) = sc.get("store") {
        if store.get("latency_max_ms").and_then(|d| d.as_u64()).unwrap_or(0) > 0 {
            let mut v = sc.clone();
            v["store"]["latency_max_ms"] = serde_json::json!(0);
            c.push(v);
        }
        if let Some(f) = store.get("faults").and_then(|f| f.as_array()) {
            for i in 0..f.len() {
                let mut v = sc.clone();
                v["store"]["faults"].as_array_mut().unwrap().remove(i);
                c.push(v);
            }
        }
    }
    c
}
