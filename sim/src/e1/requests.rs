//! Mutation requests against one node's keyspace actors / consistency service (shared by C02, C07).

use std::collections::BTreeSet;
use std::marker::PhantomData;
use std::sync::Arc;
use std::time::Duration;

use datacake_crdt::HLCTimestamp;
use datacake_eventual_consistency::verif as ecv;
use datacake_eventual_consistency::{Document, DocumentMetadata};
use datacake_node::{Clock, RpcNetwork};
use datacake_rpc::{Handler, Request};
use rand::Rng;
use serde::{Deserialize, Serialize};

use super::*;
use crate::framework::Outcome;

#[derive(Serialize, Deserialize, Clone, Copy, Debug, PartialEq, Eq)]
pub struct Item {
    pub id: u64,
    /// datacake ms
    pub t: u64,
    pub c: u16,
    pub node: u8,
}

impl Item {
    pub fn ts(&self) -> HLCTimestamp {
        HLCTimestamp::new(Duration::from_millis(self.t), self.c, self.node)
    }
}

#[derive(Serialize, Deserialize, Clone, Debug)]
pub struct Req {
    /// "actor" (message straight to the keyspace actor) or "service" (ConsistencyService handler)
    pub route: String,
    pub ks: String,
    /// "set" | "multi_set" | "del" | "multi_del" | "purge" | "batch" | "idle_hour"
    pub kind: String,
    pub source: usize,
    pub items: Vec<Item>,
    /// only for "batch": the removed list (items = modified list)
    #[serde(default)]
    pub del_items: Vec<Item>,
    /// virtual ms before the request is issued inside its group
    #[serde(default)]
    pub delay_ms: u64,
    /// the requester goes away: the future of the request (the handler future the RPC server would
    /// drop when its connection closes, or a local caller's) is dropped when it has been left
    /// pending this many times
    #[serde(default)]
    pub give_up_after_polls: Option<u32>,
}

#[derive(Serialize, Deserialize, Clone, Debug, Default)]
pub struct StoreCfg {
    pub latency_max_ms: u64,
    pub latency_seed: u64,
    /// (mutating call number, k)
    pub faults: Vec<(u64, u32)>,
}

pub struct Node {
    pub clock: Clock,
    pub storage: SimStorage,
    pub group: ecv::KeyspaceGroup<SimStorage>,
    pub service: Arc<ecv::ConsistencyService<SimStorage>>,
}

impl Node {
    /// Boots the node parts on the current runtime and rebuilds state from storage.
    pub async fn boot(storage: SimStorage) -> Result<Node, String> {
        let clock = Clock::new(0);
        let group = ecv::KeyspaceGroup::new(Arc::new(storage.clone()), clock.clone()).await;
        group.load_states_from_storage().await.map_err(|e| e.to_string())?;
        let service = Arc::new(ecv::ConsistencyService::new(group.clone(), RpcNetwork::default()));
        Ok(Node { clock, storage, group, service })
    }

    pub async fn set_of(&self, ks: &str) -> Result<Listing, String> {
        let mb = self.group.get_or_create_keyspace(ks).await;
        let bytes = mb.send(ecv::Serialize).await.map_err(|e| e.to_string())?;
        let set = decode_set(&bytes)?;
        Ok(set_listing(&set))
    }
}

pub fn apply_store_cfg(storage: &SimStorage, cfg: &StoreCfg) {
    let mut st = storage.st.lock();
    st.latency_max_ms = cfg.latency_max_ms;
    st.latency_seed = cfg.latency_seed;
    st.faults = cfg.faults.iter().map(|(n, k)| (*n, FaultKind::FailAfter(*k))).collect();
}

fn doc_of(tag: &str, it: &Item) -> Document {
    Document::new(it.id, it.ts(), format!("{tag}:{}:{}", it.id, it.ts().as_u64()).into_bytes())
}

/// Issues one request; returns Ok(true) if it was acknowledged, Ok(false) if it failed with an
/// error reply, Err for harness-level trouble.
pub async fn issue(node: &Node, tag: &str, r: &Req) -> Result<bool, String> {
    let msg_ts = node.clock.get_time().await;
    match (r.route.as_str(), r.kind.as_str()) {
        ("actor", "set") => {
            let mb = node.group.get_or_create_keyspace(&r.ks).await;
            let it = r.items.first().ok_or("set without item")?;
            Ok(mb.send(ecv::Set { source: r.source, doc: doc_of(tag, it), ctx: None, _marker: PhantomData }).await.is_ok())
        },
        ("actor", "multi_set") => {
            let mb = node.group.get_or_create_keyspace(&r.ks).await;
            let docs = r.items.iter().map(|it| doc_of(tag, it)).collect();
            Ok(mb.send(ecv::MultiSet { source: r.source, docs, ctx: None, _marker: PhantomData }).await.is_ok())
        },
        ("actor", "del") => {
            let mb = node.group.get_or_create_keyspace(&r.ks).await;
            let it = r.items.first().ok_or("del without item")?;
            Ok(mb.send(ecv::Del { source: r.source, doc: DocumentMetadata::new(it.id, it.ts()), _marker: PhantomData }).await.is_ok())
        },
        ("actor", "multi_del") => {
            let mb = node.group.get_or_create_keyspace(&r.ks).await;
            let docs = r.items.iter().map(|it| DocumentMetadata::new(it.id, it.ts())).collect();
            Ok(mb.send(ecv::MultiDel { source: r.source, docs, _marker: PhantomData }).await.is_ok())
        },
        (_, "idle_hour") => {
            // an hour goes by: the group's periodic purge pass runs on every keyspace by itself
            tokio::time::sleep(std::time::Duration::from_secs(3_660)).await;
            Ok(true)
        },
        (_, "purge") => {
            let mb = node.group.get_or_create_keyspace(&r.ks).await;
            Ok(mb.send(ecv::PurgeDeletes(PhantomData::<SimStorage>)).await.is_ok())
        },
        ("service", "set") => {
            let it = r.items.first().ok_or("set without item")?;
            let req = Request::using_owned(ecv::PutPayload { keyspace: r.ks.clone(), ctx: None, document: doc_of(tag, it), timestamp: msg_ts }).await;
            Ok(Handler::<ecv::PutPayload>::on_message(node.service.as_ref(), req).await.is_ok())
        },
        ("service", "multi_set") => {
            let req = Request::using_owned(ecv::MultiPutPayload {
                keyspace: r.ks.clone(),
                ctx: None,
                documents: r.items.iter().map(|it| doc_of(tag, it)).collect(),
                timestamp: msg_ts,
            })
            .await;
            Ok(Handler::<ecv::MultiPutPayload>::on_message(node.service.as_ref(), req).await.is_ok())
        },
        ("service", "del") => {
            let it = r.items.first().ok_or("del without item")?;
            let req = Request::using_owned(ecv::RemovePayload { keyspace: r.ks.clone(), document: DocumentMetadata::new(it.id, it.ts()), timestamp: msg_ts }).await;
            Ok(Handler::<ecv::RemovePayload>::on_message(node.service.as_ref(), req).await.is_ok())
        },
        ("service", "multi_del") => {
            let req = Request::using_owned(ecv::MultiRemovePayload {
                keyspace: r.ks.clone(),
                documents: r.items.iter().map(|it| DocumentMetadata::new(it.id, it.ts())).collect(),
                timestamp: msg_ts,
            })
            .await;
            Ok(Handler::<ecv::MultiRemovePayload>::on_message(node.service.as_ref(), req).await.is_ok())
        },
        ("service", "batch") => {
            let req = Request::using_owned(ecv::BatchPayload {
                timestamp: msg_ts,
                modified: if r.items.is_empty() {
                    Default::default()
                } else {
                    [ecv::MultiPutPayload { keyspace: r.ks.clone(), ctx: None, documents: r.items.iter().map(|it| doc_of(tag, it)).collect(), timestamp: msg_ts }].into_iter().collect()
                },
                removed: if r.del_items.is_empty() {
                    Default::default()
                } else {
                    [ecv::MultiRemovePayload { keyspace: r.ks.clone(), documents: r.del_items.iter().map(|it| DocumentMetadata::new(it.id, it.ts())).collect(), timestamp: msg_ts }].into_iter().collect()
                },
            })
            .await;
            Ok(Handler::<ecv::BatchPayload>::on_message(node.service.as_ref(), req).await.is_ok())
        },
        (a, b) => Err(format!("unknown request {a}/{b}")),
    }
}

/// The C02 oracle: set listing == store metadata, for every keyspace named so far.
pub async fn check_agreement(node: &Node, keyspaces: &BTreeSet<String>, when: &str, class_prefix: &str, out: &mut Outcome) -> u64 {
    let mut fp = Fnv::new();
    let mut all: BTreeSet<String> = keyspaces.clone();
    all.extend(node.storage.keyspace_names());
    for ks in all {
        let (sl, sd) = match node.set_of(&ks).await {
            Ok(x) => x,
            Err(e) => {
                out.violate(format!("{class_prefix}/set-not-serialisable"), format!("{when}: keyspace {ks}: {e}"));
                continue;
            },
        };
        let (ml, md) = node.storage.metadata(&ks);
        if sl != ml {
            let only_set: Vec<_> = sl.iter().filter(|x| !ml.contains(x)).copied().collect();
            let only_store: Vec<_> = ml.iter().filter(|x| !sl.contains(x)).copied().collect();
            let class = if only_set.is_empty() { "live-in-store-but-not-in-set" } else if only_store.is_empty() { "live-in-set-but-not-in-store" } else { "live-entries-differ" };
            out.violate(
                format!("{class_prefix}/{class}"),
                format!("{when}: keyspace {ks}: set live {} vs store live {} (only set {}, only store {})", fmt_list(&sl), fmt_list(&ml), fmt_list(&only_set), fmt_list(&only_store)),
            );
        }
        if sd != md {
            let only_set: Vec<_> = sd.iter().filter(|x| !md.contains(x)).copied().collect();
            let only_store: Vec<_> = md.iter().filter(|x| !sd.contains(x)).copied().collect();
            let class = if only_set.is_empty() { "tombstone-in-store-but-not-in-set" } else if only_store.is_empty() { "tombstone-in-set-but-not-in-store" } else { "tombstones-differ" };
            out.violate(
                format!("{class_prefix}/{class}"),
                format!("{when}: keyspace {ks}: set tombstones {} vs store tombstones {} (only set {}, only store {})", fmt_list(&sd), fmt_list(&md), fmt_list(&only_set), fmt_list(&only_store)),
            );
        }
        fp.str(&ks);
        for (k, t) in sl.iter().chain(sd.iter()) {
            fp.u64(*k).u64(t.as_u64());
        }
    }
    fp.finish()
}

pub struct GenCfg {
    pub keyspaces: usize,
    pub ids: u64,
    pub origins: u8,
    pub base_ms: u64,
    /// allow bulk requests that name one id more than once (hand-crafted input arm)
    pub dup_ids: bool,
    pub allow_purge: bool,
    pub spread_hours: bool,
}

pub fn gen_item(rng: &mut impl Rng, cfg: &GenCfg, now_off: &mut i64) -> Item {
    // timestamps: mostly near a slowly advancing "now", sometimes hours old or in the future
    *now_off += rng.gen_range(0..2_000);
    let off: i64 = if cfg.spread_hours {
        match rng.gen_range(0..10) {
            0 => *now_off - rng.gen_range(3_600_000..10_800_000),
            1 => *now_off + rng.gen_range(60_000..7_200_000),
            2 => *now_off - rng.gen_range(0..3_600_000),
            _ => *now_off - rng.gen_range(0..5_000),
        }
    } else {
        *now_off - rng.gen_range(0..20_000)
    };
    let t = ((cfg.base_ms as i64 + off).max(2 * 3_600_000) as u64) / 4 * 4;
    Item { id: rng.gen_range(0..cfg.ids), t, c: if rng.gen_bool(0.85) { 0 } else { rng.gen_range(0..3) }, node: rng.gen_range(1..=cfg.origins) }
}

pub fn gen_req(rng: &mut impl Rng, cfg: &GenCfg, now_off: &mut i64) -> Req {
    let ks = format!("ks{}", rng.gen_range(0..cfg.keyspaces));
    let route = if rng.gen_bool(0.6) { "actor" } else { "service" };
    let kind = match rng.gen_range(0..20) {
        0..=5 => "set",
        6..=9 => "multi_set",
        10..=13 => "del",
        14..=16 => "multi_del",
        17 if route == "service" => "batch",
        18 if cfg.allow_purge => "purge",
        19 if cfg.allow_purge => "idle_hour",
        _ => "set",
    };
    let source = if route == "actor" && rng.gen_bool(0.4) { 1 } else { 0 };
    let n = match kind {
        "set" | "del" => 1,
        "purge" | "idle_hour" => 0,
        _ => rng.gen_range(1..=5),
    };
    let mut items: Vec<Item> = Vec::new();
    // put_many / del_many stamp every document of one call with the same timestamp
    let shared_ts = n > 1 && rng.gen_bool(0.35);
    for _ in 0..n {
        let mut it = gen_item(rng, cfg, now_off);
        if shared_ts {
            if let Some(f) = items.first() {
                it.t = f.t;
                it.c = f.c;
                it.node = f.node;
            }
        }
        if (!cfg.dup_ids || shared_ts) && items.iter().any(|x| x.id == it.id) {
            continue;
        }
        if !shared_ts && items.iter().any(|x| x.ts() == it.ts()) {
            continue;
        }
        items.push(it);
    }
    if items.is_empty() && kind != "purge" && kind != "idle_hour" {
        items.push(gen_item(rng, cfg, now_off));
    }
    let mut del_items = Vec::new();
    if kind == "batch" {
        for _ in 0..rng.gen_range(0..=3) {
            let it = gen_item(rng, cfg, now_off);
            if !del_items.iter().any(|x: &Item| x.id == it.id) && !items.iter().any(|x| x.ts() == it.ts()) {
                del_items.push(it);
            }
        }
    }
    Req { route: route.to_string(), ks, kind: kind.to_string(), source, items, del_items, delay_ms: 0, give_up_after_polls: None }
}
