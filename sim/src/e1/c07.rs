//! C07 — a restarted node rebuilds exactly what storage holds; acked writes survive.

use std::collections::BTreeSet;
use std::sync::atomic::Ordering;

use rand::Rng;
use serde::{Deserialize, Serialize};
use serde_json::Value;

use super::c02::{gen_history, shrink_groups};
use super::requests::*;
use super::*;
use crate::framework::*;

#[derive(Serialize, Deserialize, Clone, Debug)]
pub struct Crash {
    /// stop after this many request groups have completed (None = use `in_call`)
    pub after_group: Option<usize>,
    /// park the n-th mutating storage call after `prefix` of its writes became durable, then stop
    pub in_call: Option<(u64, u32)>,
}

#[derive(Serialize, Deserialize, Clone, Debug)]
pub struct Scenario {
    pub base_ms: u64,
    pub store: StoreCfg,
    pub events: Vec<Vec<Req>>,
    pub crash: Crash,
    /// second crash, applied to the run after the first restart (None = none)
    pub crash2: Option<Crash>,
}

pub struct C07;

// ------------------------------------------------------------------------------------------
// real-backend arm: the same restart oracle over real SQLite / LMDB files (stop between requests)

#[derive(Serialize, Deserialize, Clone, Debug)]
pub struct RealScenario {
    /// "sqlite" | "lmdb"
    pub backend: String,
    pub base_ms: u64,
    pub events: Vec<Vec<Req>>,
    /// the node stops (storage dropped without further ado, then reopened) after these many groups
    pub stops: Vec<usize>,
    /// the node is killed instead: the files are imaged as they are while the backend is still open
    /// (no clean close), and the next incarnation starts on the image
    #[serde(default)]
    pub kill: bool,
}

fn image_files(backend: &str, from: &std::path::Path, to: &std::path::Path) -> Result<(), String> {
    let src = if backend == "sqlite" { from.to_path_buf() } else { from.join("lmdb") };
    let dst = if backend == "sqlite" { to.to_path_buf() } else { to.join("lmdb") };
    std::fs::create_dir_all(&dst).map_err(|e| e.to_string())?;
    for e in std::fs::read_dir(&src).map_err(|e| e.to_string())? {
        let e = e.map_err(|e| e.to_string())?;
        if e.path().is_file() {
            std::fs::copy(e.path(), dst.join(e.file_name())).map_err(|e| e.to_string())?;
        }
    }
    Ok(())
}

async fn real_listing<S: datacake_eventual_consistency::Storage>(group: &datacake_eventual_consistency::verif::KeyspaceGroup<S>, storage: &S, ks: &str) -> Result<(Listing, Listing), String> {
    // The real backends answer from their own threads, so the keyspace actor can run between the
    // two reads (the group's periodic purge pass fires once right after start-up, for one): the
    // set is read before and after the store, and only a pair with an unchanged set is judged.
    let mb = group.get_or_create_keyspace(ks).await;
    let mut last: Option<(Listing, Listing)> = None;
    for _ in 0..10 {
        let bytes = mb.send(datacake_eventual_consistency::verif::Serialize).await.map_err(|e| e.to_string())?;
        let before = set_listing(&decode_set(&bytes)?);
        let mut live = Vec::new();
        let mut dead = Vec::new();
        for (k, t, tomb) in storage.iter_metadata(ks).await.map_err(|e| e.to_string())? {
            if tomb {
                dead.push((k, t));
            } else {
                live.push((k, t));
            }
        }
        live.sort();
        dead.sort();
        let bytes = mb.send(datacake_eventual_consistency::verif::Serialize).await.map_err(|e| e.to_string())?;
        let after = set_listing(&decode_set(&bytes)?);
        let stable = before == after;
        last = Some((after, (live, dead)));
        if stable {
            break;
        }
        tokio::time::sleep(std::time::Duration::from_millis(2)).await;
    }
    last.ok_or_else(|| "harness: no listing".to_string())
}

async fn real_incarnation<O: super::c17::Opener>(sc: &RealScenario, dir: &std::path::Path, image_to: Option<&std::path::Path>, boots: usize, mut next: usize, stop_at: usize, out: &mut Outcome, tr: &mut Fnv) -> Result<(std::sync::Arc<O::S>, usize), String>
where
    O::S: datacake_eventual_consistency::Storage,
{
    use datacake_eventual_consistency::verif as ecv;
    use std::marker::PhantomData;
    let b = O::NAME;
    let storage = std::sync::Arc::new(O::open(dir).await?);
    let clock = datacake_node::Clock::new(0);
    let group = ecv::KeyspaceGroup::new(storage.clone(), clock.clone()).await;
    group.load_states_from_storage().await.map_err(|e| format!("load_states_from_storage failed: {e}"))?;
    if boots > 0 {
        out.fault("node_stopped_and_restarted_on_real_files");
        let listed = storage.get_keyspace_list().await.map_err(|e| e.to_string())?;
        for ks in listed {
            let (set, store) = real_listing(&group, storage.as_ref(), &ks).await?;
            if set.0 != store.0 {
                out.violate(format!("C07/{b}/rebuilt-live-entries-differ-from-store"), format!("after restart #{boots}: keyspace {ks}: rebuilt set live {} vs {b} rows {}", fmt_list(&set.0), fmt_list(&store.0)));
            }
            if set.1 != store.1 {
                out.violate(format!("C07/{b}/rebuilt-tombstones-differ-from-store"), format!("after restart #{boots}: keyspace {ks}: rebuilt set tombstones {} vs {b} rows {}", fmt_list(&set.1), fmt_list(&store.1)));
            }
            tr.str(&ks);
        }
    }
    while next < sc.events.len() && next < stop_at {
        for (ri, r) in sc.events[next].iter().enumerate() {
            let mb = group.get_or_create_keyspace(&r.ks).await;
            let tag = format!("g{next}r{ri}");
            let doc = |it: &Item| datacake_eventual_consistency::Document::new(it.id, it.ts(), format!("{tag}:{}", it.id).into_bytes());
            let meta = |it: &Item| datacake_eventual_consistency::DocumentMetadata::new(it.id, it.ts());
            let ok = match r.kind.as_str() {
                "set" => mb.send(ecv::Set { source: r.source, doc: doc(&r.items[0]), ctx: None, _marker: PhantomData }).await.is_ok(),
                "multi_set" | "batch" => mb.send(ecv::MultiSet { source: r.source, docs: r.items.iter().map(doc).collect(), ctx: None, _marker: PhantomData }).await.is_ok(),
                "del" => mb.send(ecv::Del { source: r.source, doc: meta(&r.items[0]), _marker: PhantomData }).await.is_ok(),
                "multi_del" => mb.send(ecv::MultiDel { source: r.source, docs: r.items.iter().map(meta).collect(), _marker: PhantomData }).await.is_ok(),
                _ => mb.send(ecv::PurgeDeletes(PhantomData::<O::S>)).await.is_ok(),
            };
            if !ok {
                out.violate(format!("C07/{b}/request-failed-on-real-backend"), format!("group {next} request {ri} ({}) failed", r.kind));
            }
            // C02's oracle on the real backend as well
            let (set, store) = real_listing(&group, storage.as_ref(), &r.ks).await?;
            if set != store {
                out.violate(format!("C07/{b}/set-and-store-disagree"), format!("after group {next} request {ri} ({}): keyspace {}: set {} / {} vs {b} rows {} / {}", r.kind, r.ks, fmt_list(&set.0), fmt_list(&set.1), fmt_list(&store.0), fmt_list(&store.1)));
            }
        }
        next += 1;
    }
    if let Some(img) = image_to {
        // kill -9 image: every request above has returned, the backend is still open
        image_files(b, dir, img).map_err(|e| format!("harness: imaging the files failed: {e}"))?;
        out.fault("node_killed_files_imaged_without_close");
    }
    Ok((storage, next))
}

fn real_run<O: super::c17::Opener>(sc: &RealScenario, out: &mut Outcome, tr: &mut Fnv) -> Result<(), String>
where
    O::S: datacake_eventual_consistency::Storage,
{
    let root = super::c17::scratch_dir();
    let mut dir = root.join("i0");
    std::fs::create_dir_all(&dir).map_err(|e| format!("harness: {e}"))?;
    let mut next = 0usize;
    let mut boots = 0usize;
    let mut stops: Vec<usize> = sc.stops.iter().copied().filter(|s| *s <= sc.events.len()).collect();
    stops.sort();
    stops.dedup();
    let closer = tokio::runtime::Builder::new_current_thread().enable_time().build().expect("runtime");
    loop {
        let stop_at = stops.iter().copied().find(|s| *s > next).unwrap_or(usize::MAX);
        // one runtime per incarnation: the stop takes every task of the node with it, the files stay
        let rt = tokio::runtime::Builder::new_current_thread().enable_time().build().expect("runtime");
        let image = if sc.kill && boots < stops.len() { Some(root.join(format!("i{}", boots + 1))) } else { None };
        let res = rt.block_on(real_incarnation::<O>(sc, &dir, image.as_deref(), boots, next, stop_at, out, tr));
        drop(rt);
        let (storage, n) = res?;
        next = n;
        boots += 1;
        let storage = std::sync::Arc::try_unwrap(storage).map_err(|_| "harness: storage still shared after the node's runtime was dropped".to_string())?;
        closer.block_on(O::close(storage));
        if let Some(img) = image {
            dir = img;
        } else if O::NAME == "lmdb" && boots % 2 == 1 && boots <= stops.len() {
            // clean stop on LMDB: the environment stays open in this process (see
            // c17::OLmdb::close), so every other restart runs on a copy of the files, the way a
            // new process would find them; the others reopen the same path
            let next_dir = root.join(format!("c{boots}"));
            image_files("lmdb", &dir, &next_dir).map_err(|e| format!("harness: copying the files failed: {e}"))?;
            dir = next_dir;
        }
        if boots > stops.len() {
            break;
        }
    }
    let _ = std::fs::remove_dir_all(&root);
    Ok(())
}

pub fn execute_real(sc: &RealScenario) -> Outcome {
    let mut out = Outcome::default();
    let mut tr = Fnv::new();
    tr.str(&sc.backend);
    let wall = VirtualWall::install(sc.base_ms);
    let res = match sc.backend.as_str() {
        "sqlite" => real_run::<super::c17::OSqlite>(sc, &mut out, &mut tr),
        "lmdb" => real_run::<super::c17::OLmdb>(sc, &mut out, &mut tr),
        _ => Err("unknown backend".to_string()),
    };
    drop(wall);
    if let Err(e) = res {
        if e.starts_with("harness") {
            return Outcome::invalid(e);
        }
        out.violate(format!("C07/{}/restart-failed", sc.backend), e);
    }
    out.nontrivial = sc.events.len() >= 3 && !sc.stops.is_empty();
    out.probe(&format!("real_backend_{}", sc.backend));
    for g in &sc.events {
        for r in g {
            tr.str(&r.kind).u64(r.items.len() as u64);
        }
    }
    for s in &sc.stops {
        tr.u64(*s as u64);
    }
    out.trace_hash = tr.finish();
    out.signature = tr.finish();
    out.state_fp = tr.finish();
    out
}

struct Phase {
    /// (ks, id, ts, tombstone) written by storage calls of acknowledged requests
    acked: Vec<Acked>,
    next_group: usize,
    crashed_in_call: bool,
}

type Acked = (String, u64, datacake_crdt::HLCTimestamp, bool);

fn run_phase(sc: &Scenario, storage: &SimStorage, wall: &VirtualWall, from_group: usize, crash: Option<&Crash>, out: &mut Outcome, first_boot: bool, acked_before: &[Acked]) -> Result<Phase, String> {
    let rt = new_runtime();
    storage.parked.store(false, Ordering::SeqCst);
    {
        let mut st = storage.st.lock();
        st.park_at = crash.and_then(|c| c.in_call).map(|(n, p)| (st.mutating_calls + n, p));
    }
    let stop_after = crash.and_then(|c| c.after_group);
    let st2 = storage.clone();
    let mut phase = Phase { acked: Vec::new(), next_group: from_group, crashed_in_call: false };
    let mut named: BTreeSet<String> = BTreeSet::new();
    let mut local_out = Outcome::default();
    let fut = async {
        let node = Node::boot(st2.clone()).await?;
        if !first_boot {
            // the restart oracle: rebuilt set == store, for every keyspace storage lists
            let listed: BTreeSet<String> = st2.keyspace_names().into_iter().collect();
            check_agreement(&node, &listed, "right after restart", "C07/rebuilt", &mut local_out).await;
            // every mutation acknowledged before the stop is visible in the rebuilt set
            // (or superseded by a newer one / its tombstone purged by a later successful purge)
            for (ks, id, ts, tomb) in acked_before {
                let (live, dead) = node.set_of(ks).await?;
                let view = live.iter().chain(dead.iter()).find(|(k, _)| k == id).map(|x| x.1);
                let purged_later = st2.st.lock().calls.iter().any(|c| c.kind == "remove_tombstones" && c.keyspace == *ks && c.items.iter().take(c.applied).any(|(k, _)| k == id));
                match view {
                    Some(t) if t >= *ts => {},
                    // the tombstone was purged by a later successful purge: the row is gone for
                    // good, whatever is written to that id afterwards is a new history
                    _ if purged_later => {},
                    other => local_out.violate(
                        "C07/acknowledged-mutation-not-visible-after-restart",
                        format!("keyspace {ks} id {id}: {} acknowledged at {} before the stop, rebuilt set holds {:?}", if *tomb { "delete" } else { "put" }, fmt_ts(*ts), other.map(fmt_ts)),
                    ),
                }
            }
        }
        let mut done = 0usize;
        for (gi, group) in sc.events.iter().enumerate().skip(from_group) {
            if let Some(n) = stop_after {
                if done >= n {
                    break;
                }
            }
            for (ri, r) in group.iter().enumerate() {
                named.insert(r.ks.clone());
                let calls_before = st2.st.lock().calls.len();
                let acked = issue(&node, &format!("g{gi}r{ri}"), r).await?;
                if acked {
                    let st = st2.st.lock();
                    for c in st.calls.iter().skip(calls_before) {
                        if c.ok && c.kind != "remove_tombstones" {
                            let tomb = c.kind.starts_with("mark");
                            for (k, t) in &c.items {
                                phase.acked.push((c.keyspace.clone(), *k, *t, tomb));
                            }
                        }
                    }
                }
            }
            done += 1;
            phase.next_group = gi + 1;
            if !first_boot {
                check_agreement(&node, &named, &format!("after request group {gi} (after a restart)"), "C07/after-restart", &mut local_out).await;
            }
        }
        Ok::<(), String>(())
    };
    let res = block_on_until_parked(&rt, storage, fut);
    let elapsed = rt.block_on(async { wall.now_ms() }).saturating_sub(wall.base_ms);
    let _ = elapsed;
    match res {
        None => {
            phase.crashed_in_call = true;
            out.fault("crash_inside_storage_call");
        },
        Some(Err(e)) => return Err(e),
        Some(Ok(())) => {
            if crash.is_some() {
                out.fault("crash_between_requests");
            }
        },
    }
    // the crash: every task is cancelled where it stands; only the storage object survives
    drop(rt);
    wall.carry_over(1_000);
    {
        let mut st = storage.st.lock();
        st.park_at = None;
    }
    for v in local_out.violations {
        out.violate(v.class, v.detail);
    }
    Ok(phase)
}

pub fn execute_scenario(sc: &Scenario) -> Outcome {
    let mut out = Outcome::default();
    let wall = VirtualWall::install(sc.base_ms);
    let storage = SimStorage::default();
    apply_store_cfg(&storage, &sc.store);
    let mut acked_all = Vec::new();
    // phase 1: until the crash
    let p1 = match run_phase(sc, &storage, &wall, 0, Some(&sc.crash), &mut out, true, &[]) {
        Ok(p) => p,
        Err(e) => return Outcome::invalid(e),
    };
    acked_all.extend(p1.acked.clone());
    let fp1 = storage.fingerprint();
    // phase 2: restart on the same storage, check, continue (optionally crash again)
    let from = if p1.crashed_in_call { p1.next_group + 1 } else { p1.next_group };
    let p2 = match run_phase(sc, &storage, &wall, from.min(sc.events.len()), sc.crash2.as_ref(), &mut out, false, &acked_all.clone()) {
        Ok(p) => p,
        Err(e) => return Outcome::invalid(e),
    };
    acked_all.extend(p2.acked.clone());
    if sc.crash2.is_some() {
        let from = if p2.crashed_in_call { p2.next_group + 1 } else { p2.next_group };
        match run_phase(sc, &storage, &wall, from.min(sc.events.len()), None, &mut out, false, &acked_all.clone()) {
            Ok(p) => acked_all.extend(p.acked),
            Err(e) => return Outcome::invalid(e),
        }
    }
    drop(wall);
    let st = storage.st.lock();
    out.fault_n("storage_call_failed", st.faults_fired);
    let writes = st.calls.iter().filter(|c| c.applied > 0).count();
    let rows: usize = st.rows.values().map(|m| m.len()).sum();
    out.nontrivial = writes >= 2 && rows >= 1;
    drop(st);
    let mut sig = Fnv::new();
    sig.u64(fp1).u64(storage.trace_hash()).u64(p1.crashed_in_call as u64).u64(p1.next_group as u64);
    out.signature = sig.finish();
    out.state_fp = storage.fingerprint();
    let mut tr = Fnv::new();
    tr.u64(storage.trace_hash()).u64(out.state_fp).u64(fp1);
    out.trace_hash = tr.finish();
    out.sim_ms = 2_000;
    out
}

const SLOTS: u64 = 72;
const HISTORIES_QUICK: u64 = 600;
const HISTORIES_THOROUGH: u64 = 20000;


/// "large keyspace": a few hundred to a few thousand rows (documents of two origins, then a bulk
/// delete of part of them) in one keyspace, so that the restart load works through more rows than
/// any internal chunk or page holds
fn large_keyspace_groups(rng: &mut rand::rngs::SmallRng, base_ms: u64, route: &str) -> Vec<Vec<Req>> {
    let n = *[257u64, 300, 513, 700, 1_025, 1_500, 2_100].get(rng.gen_range(0..7)).unwrap() + rng.gen_range(0..40);
    let (o1, o2) = (rng.gen_range(1..=3u8), rng.gen_range(4..=6u8));
    let t0 = base_ms - 1_200_000;
    let item = |id: u64, t: u64, node: u8| Item { id, t, c: 0, node };
    let req = |kind: &str, items: Vec<Item>, source: usize| Req { kind: kind.to_string(), ks: "ks0".to_string(), route: route.to_string(), source, items, del_items: vec![], delay_ms: 0, give_up_after_polls: None };
    let half = n / 2;
    let step = rng.gen_range(2..=5u64);
    vec![
        vec![req("multi_set", (0..half).map(|i| item(i, t0 + 4 * i, o1)).collect(), 0)],
        vec![req("multi_set", (half..n).map(|i| item(i, t0 + 4 * i, o2)).collect(), rng.gen_range(0..2))],
        vec![req("multi_del", (0..n).filter(|i| i % step == 0).map(|i| item(i, t0 + 4 * n + 4 * i, if i % 2 == 0 { o1 } else { o2 })).collect(), 0)],
        vec![req("set", vec![item(n + 1, base_ms - 10_000, o1)], 0)],
    ]
}

fn history(seed: u64, h: u64) -> Scenario {
    let mut rng = rng_from(mix(mix(seed, 0xC07), h));
    let cfg = GenCfg {
        keyspaces: rng.gen_range(1..=3),
        ids: rng.gen_range(2..=6),
        origins: rng.gen_range(1..=3),
        base_ms: rng.gen_range(1_000_000_000u64..60_000_000_000) / 4 * 4,
        dup_ids: false,
        allow_purge: rng.gen_bool(0.5),
        spread_hours: rng.gen_bool(0.6),
    };
    let groups = rng.gen_range(3..=24);
    let events = gen_history(&mut rng, groups, &cfg, 0.0);
    let mut store = StoreCfg::default();
    if rng.gen_bool(0.3) {
        store.faults.push((rng.gen_range(1..=groups as u64), rng.gen_range(0..=3)));
    }
    Scenario { base_ms: cfg.base_ms, store, events, crash: Crash { after_group: Some(0), in_call: None }, crash2: None }
}

impl Check for C07 {
    fn id(&self) -> &'static str {
        "C07"
    }
    fn title(&self) -> &'static str {
        "A restarted node rebuilds exactly what storage holds; acked writes survive"
    }
    fn level(&self) -> &'static str {
        "fault_enumeration"
    }
    fn engine(&self) -> &'static str {
        "E1 single-node engine: crash = the whole tokio runtime is dropped at the chosen instant (every task cancelled at its await point, in-flight storage call parked after a chosen durable prefix); restart = fresh runtime + KeyspaceGroup::load_states_from_storage on the surviving SimStorage"
    }
    fn rule(&self) -> &'static str {
        "Cases: for each seeded request history (3-24 sequential set/multi_set/del/multi_del/batch/purge requests, 1-3 keyspaces, timestamps near now / hours old / future, occasional storage failure) EVERY crash point of the grid is taken: after request group g for g in 0..24, and inside mutating storage call n in 1..16 with 0, 1 or all of its writes durable (72 crash points per history); the enumeration is complete over that grid for the stated number of histories. Beyond the grid, seeded cases add a second crash after the first restart, one case in 41 puts a large keyspace in front of the history (257-2 140 rows of two origins written in two bulk calls, a bulk delete of every 2nd-5th, the stop after that; also one real-backend case in six), and one case in 23 runs a history over real SQLite / LMDB files (origin node ids up to 255 in the persisted timestamps) with the node stopped between requests and restarted on the same files (clean stop, or kill: the files are imaged while the backend is still open and the next incarnation runs on the image). After restart: rebuilt set (Serialize, validated) == store rows for every keyspace the store lists; the rest of the history is then replayed with the C02 oracle after every request; every write of an acknowledged request is still in the store (or superseded / purged). Non-trivial = >= 2 storage writes and >= 1 stored row. Distinct = hash of (store state at crash, storage trace, crash position)."
    }
    fn assumptions(&self) -> Vec<String> {
        vec![
            "SimStorage makes each applied write durable at once; a parked call models any durable prefix of an un-acknowledged call".into(),
            "torn writes below a real backend's own commit protocol are out of scope (no seam under SQLite/LMDB)".into(),
            "the 'converges with its peers' clause is checked by C01 (crash/restart events inside cluster runs)".into(),
        ]
    }
    fn components(&self) -> Vec<(&'static str, &'static str)> {
        vec![
            ("KeyspaceGroup::load_states_from_storage, keyspace actors, ConsistencyService handlers, Clock", "real"),
            ("Storage", "SimStorage (harness), lives outside the runtime, parks in-flight calls"),
            ("process crash", "simulated: runtime dropped"),
            ("SqliteStorage / LmdbStorage (real-backend arm)", "real, real files on tmpfs; stops between requests only"),
        ]
    }
    fn budget(&self, tier: Tier) -> Budget {
        match tier {
            Tier::Quick => Budget { wall_secs: 45, max_cases: SLOTS * HISTORIES_QUICK * 23 / 22 + 20_000, checkpoint_every: 64, workers: 16 },
            Tier::Thorough => Budget { wall_secs: 900, max_cases: SLOTS * HISTORIES_THOROUGH * 23 / 22 + 1_000_000, checkpoint_every: 64, workers: 16 },
        }
    }
    fn total_cases(&self, tier: Tier) -> Option<u64> {
        Some(self.budget(tier).max_cases)
    }
    fn generate(&self, seed: u64, idx: u64, tier: Tier) -> Value {
        let arm = arm_split(idx, 23);
        let idx = match arm {
            Ok(_) => idx,
            Err(main) => main,
        };
        if let Ok(ordinal) = arm {
            // real-backend arm: SQLite / LMDB files, stops between requests
            let mut rng = rng_from(case_seed(seed ^ 0xBAC, idx));
            let cfg = GenCfg {
                keyspaces: rng.gen_range(1..=2),
                ids: rng.gen_range(2..=5),
                // origin ids over the whole range: persisted timestamps carry them
                origins: *[3u8, 12, 99, 255].get(rng.gen_range(0..4)).unwrap(),
                base_ms: rng.gen_range(1_000_000_000u64..60_000_000_000) / 4 * 4,
                dup_ids: false,
                allow_purge: rng.gen_bool(0.4),
                spread_hours: rng.gen_bool(0.5),
            };
            let groups = rng.gen_range(3..=14);
            let events: Vec<Vec<Req>> = gen_history(&mut rng, groups, &cfg, 0.0).into_iter().map(|g| g.into_iter().map(|mut r| { r.route = "actor".into(); if r.kind == "idle_hour" { r.kind = "purge".into(); } r }).collect()).collect();
            let mut events = events;
            let mut groups = groups;
            if rng.gen_bool(1.0 / 6.0) {
                // a keyspace of many rows under the real backend (rows come back in key order)
                let mut big = large_keyspace_groups(&mut rng, cfg.base_ms, "actor");
                groups += big.len();
                big.extend(events);
                events = big;
            }
            let stops: Vec<usize> = (0..rng.gen_range(1..=2)).map(|_| rng.gen_range(1..=groups)).collect();
            let sc = RealScenario { backend: if ordinal % 2 == 0 { "sqlite" } else { "lmdb" }.to_string(), base_ms: cfg.base_ms, events, stops, kill: rng.gen_bool(0.4) };
            return serde_json::json!({ "real": sc });
        }
        let hist = if tier == Tier::Quick { HISTORIES_QUICK } else { HISTORIES_THOROUGH };
        if idx < SLOTS * hist {
            let mut sc = history(seed, idx / SLOTS);
            let slot = idx % SLOTS;
            sc.crash = if slot < 24 {
                Crash { after_group: Some(slot as usize), in_call: None }
            } else {
                let s = slot - 24;
                let n = s / 3 + 1;
                let prefix = [0u32, 1, u32::MAX][(s % 3) as usize];
                Crash { after_group: None, in_call: Some((n, prefix)) }
            };
            return serde_json::to_value(sc).unwrap();
        }
        let mut rng = rng_from(case_seed(seed, idx));
        let mut sc = history(seed ^ 0x5EED, idx);
        if mix(0x1A46E, idx) % 41 == 0 {
            // large keyspace in front of the seeded history; the first stop falls after it
            let mut big = large_keyspace_groups(&mut rng, sc.base_ms, "actor");
            let nb = big.len();
            big.extend(std::mem::take(&mut sc.events));
            sc.events = big;
            sc.store.faults.clear();
            let g = sc.events.len();
            sc.crash = Crash { after_group: Some(rng.gen_range(nb - 1..=g)), in_call: None };
            sc.crash2 = if rng.gen_bool(0.5) { Some(Crash { after_group: Some(rng.gen_range(0..=g)), in_call: None }) } else { None };
            return serde_json::to_value(sc).unwrap();
        }
        let g = sc.events.len();
        let mk = |rng: &mut rand::rngs::SmallRng| {
            if rng.gen_bool(0.5) {
                Crash { after_group: Some(rng.gen_range(0..=g)), in_call: None }
            } else {
                Crash { after_group: None, in_call: Some((rng.gen_range(1..=g as u64 + 2), [0u32, 1, 2, u32::MAX][rng.gen_range(0..4)])) }
            }
        };
        sc.crash = mk(&mut rng);
        sc.crash2 = Some(mk(&mut rng));
        serde_json::to_value(sc).unwrap()
    }
    fn isolate(&self, scenario: &Value) -> bool {
        // LMDB environments stay open until the process ends (see c17::OLmdb::close)
        scenario.get("real").and_then(|r| r.get("backend")).and_then(|b| b.as_str()) == Some("lmdb")
    }
    fn execute(&self, scenario: &Value) -> Outcome {
        if let Some(r) = scenario.get("real") {
            return match serde_json::from_value::<RealScenario>(r.clone()) {
                Ok(sc) => execute_real(&sc),
                Err(e) => Outcome::invalid(format!("bad scenario: {e}")),
            };
        }
        let sc: Scenario = match serde_json::from_value(scenario.clone()) {
            Ok(s) => s,
            Err(e) => return Outcome::invalid(format!("bad scenario: {e}")),
        };
        execute_scenario(&sc)
    }
    fn shrink(&self, sc: &Value) -> Vec<Value> {
        if let Some(r) = sc.get("real") {
            return shrink_groups(r).into_iter().map(|v| serde_json::json!({ "real": v })).collect();
        }
        let mut c = Vec::new();
        if sc.get("crash2").map(|c| !c.is_null()).unwrap_or(false) {
            let mut v = sc.clone();
            v["crash2"] = Value::Null;
            c.push(v);
        }
        // removing a request group shifts the crash position; try both shifted and unshifted
        c.extend(shrink_groups(sc));
        if let Some(n) = sc["crash"]["after_group"].as_u64() {
            if n > 0 {
                let mut v = sc.clone();
                v["crash"]["after_group"] = serde_json::json!(n - 1);
                c.push(v);
            }
        }
        c
    }
}
