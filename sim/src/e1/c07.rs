//! C07 — a restarted node rebuilds exactly what storage holds; acked writes survive.

use std::collections::BTreeSet;
use std::sync::atomic::Ordering;

use rand::Rng;
use serde::{Deserialize, Serialize};
use serde_json::Value;

use super::c02::{gen_history, shrink_groups};
use super::requests::*;
use super::*;
use crate::framework::*;

#[derive(Serialize, Deserialize, Clone, Debug)]
pub struct Crash {
    /// stop after this many request groups have completed (None = use `in_call`)
    pub after_group: Option<usize>,
    /// park the n-th mutating storage call after `prefix` of its writes became durable, then stop
    pub in_call: Option<(u64, u32)>,
}

#[derive(Serialize, Deserialize, Clone, Debug)]
pub struct Scenario {
    pub base_ms: u64,
    pub store: StoreCfg,
    pub events: Vec<Vec<Req>>,
    pub crash: Crash,
    /// second crash, applied to the run after the first restart (None = none)
    pub crash2: Option<Crash>,
}

pub struct C07;

struct Phase {
    /// (ks, id, ts, tombstone) written by storage calls of acknowledged requests
    acked: Vec<Acked>,
    next_group: usize,
    crashed_in_call: bool,
}

type Acked = (String, u64, datacake_crdt::HLCTimestamp, bool);

fn run_phase(sc: &Scenario, storage: &SimStorage, wall: &VirtualWall, from_group: usize, crash: Option<&Crash>, out: &mut Outcome, first_boot: bool, acked_before: &[Acked]) -> Result<Phase, String> {
    let rt = new_runtime();
    storage.parked.store(false, Ordering::SeqCst);
    {
        let mut st = storage.st.lock();
        st.park_at = crash.and_then(|c| c.in_call).map(|(n, p)| (st.mutating_calls + n, p));
    }
    let stop_after = crash.and_then(|c| c.after_group);
    let st2 = storage.clone();
    let mut phase = Phase { acked: Vec::new(), next_group: from_group, crashed_in_call: false };
    let mut named: BTreeSet<String> = BTreeSet::new();
    let mut local_out = Outcome::default();
    let fut = async {
        let node = Node::boot(st2.clone()).await?;
        if !first_boot {
            // the restart oracle: rebuilt set == store, for every keyspace storage lists
            let listed: BTreeSet<String> = st2.keyspace_names().into_iter().collect();
            check_agreement(&node, &listed, "right after restart", "C07/rebuilt", &mut local_out).await;
            // every mutation acknowledged before the stop is visible in the rebuilt set
            // (or superseded by a newer one / its tombstone purged by a later successful purge)
            for (ks, id, ts, tomb) in acked_before {
                let (live, dead) = node.set_of(ks).await?;
                let view = live.iter().chain(dead.iter()).find(|(k, _)| k == id).map(|x| x.1);
                let purged_later = st2.st.lock().calls.iter().any(|c| c.kind == "remove_tombstones" && c.keyspace == *ks && c.items.iter().take(c.applied).any(|(k, _)| k == id));
                match view {
                    Some(t) if t >= *ts => {},
                    // the tombstone was purged by a later successful purge: the row is gone for
                    // good, whatever is written to that id afterwards is a new history
                    _ if purged_later => {},
                    other => local_out.violate(
                        "C07/acknowledged-mutation-not-visible-after-restart",
                        format!("keyspace {ks} id {id}: {} acknowledged at {} before the stop, rebuilt set holds {:?}", if *tomb { "delete" } else { "put" }, fmt_ts(*ts), other.map(fmt_ts)),
                    ),
                }
            }
        }
        let mut done = 0usize;
        for (gi, group) in sc.events.iter().enumerate().skip(from_group) {
            if let Some(n) = stop_after {
                if done >= n {
                    break;
                }
            }
            for (ri, r) in group.iter().enumerate() {
                named.insert(r.ks.clone());
                let calls_before = st2.st.lock().calls.len();
                let acked = issue(&node, &format!("g{gi}r{ri}"), r).await?;
                if acked {
                    let st = st2.st.lock();
                    for c in st.calls.iter().skip(calls_before) {
                        if c.ok && c.kind != "remove_tombstones" {
                            let tomb = c.kind.starts_with("mark");
                            for (k, t) in &c.items {
                                phase.acked.push((c.keyspace.clone(), *k, *t, tomb));
                            }
                        }
                    }
                }
            }
            done += 1;
            phase.next_group = gi + 1;
            if !first_boot {
                check_agreement(&node, &named, &format!("after request group {gi} (after a restart)"), "C07/after-restart", &mut local_out).await;
            }
        }
        Ok::<(), String>(())
    };
    let res = block_on_until_parked(&rt, storage, fut);
    let elapsed = rt.block_on(async { wall.now_ms() }).saturating_sub(wall.base_ms);
    let _ = elapsed;
    match res {
        None => {
            phase.crashed_in_call = true;
            out.fault("crash_inside_storage_call");
        },
        Some(Err(e)) => return Err(e),
        Some(Ok(())) => {
            if crash.is_some() {
                out.fault("crash_between_requests");
            }
        },
    }
    // the crash: every task is cancelled where it stands; only the storage object survives
    drop(rt);
    wall.carry_over(1_000);
    {
        let mut st = storage.st.lock();
        st.park_at = None;
    }
    for v in local_out.violations {
        out.violate(v.class, v.detail);
    }
    Ok(phase)
}

pub fn execute_scenario(sc: &Scenario) -> Outcome {
    let mut out = Outcome::default();
    let wall = VirtualWall::install(sc.base_ms);
    let storage = SimStorage::default();
    apply_store_cfg(&storage, &sc.store);
    let mut acked_all = Vec::new();
    // phase 1: until the crash
    let p1 = match run_phase(sc, &storage, &wall, 0, Some(&sc.crash), &mut out, true, &[]) {
        Ok(p) => p,
        Err(e) => return Outcome::invalid(e),
    };
    acked_all.extend(p1.acked.clone());
    let fp1 = storage.fingerprint();
    // phase 2: restart on the same storage, check, continue (optionally crash again)
    let from = if p1.crashed_in_call { p1.next_group + 1 } else { p1.next_group };
    let p2 = match run_phase(sc, &storage, &wall, from.min(sc.events.len()), sc.crash2.as_ref(), &mut out, false, &acked_all.clone()) {
        Ok(p) => p,
        Err(e) => return Outcome::invalid(e),
    };
    acked_all.extend(p2.acked.clone());
    if sc.crash2.is_some() {
        let from = if p2.crashed_in_call { p2.next_group + 1 } else { p2.next_group };
        match run_phase(sc, &storage, &wall, from.min(sc.events.len()), None, &mut out, false, &acked_all.clone()) {
            Ok(p) => acked_all.extend(p.acked),
            Err(e) => return Outcome::invalid(e),
        }
    }
    drop(wall);
    let st = storage.st.lock();
    out.fault_n("storage_call_failed", st.faults_fired);
    let writes = st.calls.iter().filter(|c| c.applied > 0).count();
    let rows: usize = st.rows.values().map(|m| m.len()).sum();
    out.nontrivial = writes >= 2 && rows >= 1;
    drop(st);
    let mut sig = Fnv::new();
    sig.u64(fp1).u64(storage.trace_hash()).u64(p1.crashed_in_call as u64).u64(p1.next_group as u64);
    out.signature = sig.finish();
    out.state_fp = storage.fingerprint();
    let mut tr = Fnv::new();
    tr.u64(storage.trace_hash()).u64(out.state_fp).u64(fp1);
    out.trace_hash = tr.finish();
    out.sim_ms = 2_000;
    out
}

const SLOTS: u64 = 72;
const HISTORIES_QUICK: u64 = 600;
const HISTORIES_THOROUGH: u64 = 20000;

fn history(seed: u64, h: u64) -> Scenario {
    let mut rng = rng_from(mix(mix(seed, 0xC07), h));
    let cfg = GenCfg {
        keyspaces: rng.gen_range(1..=3),
        ids: rng.gen_range(2..=6),
        origins: rng.gen_range(1..=3),
        base_ms: rng.gen_range(1_000_000_000u64..60_000_000_000) / 4 * 4,
        dup_ids: false,
        allow_purge: rng.gen_bool(0.5),
        spread_hours: rng.gen_bool(0.6),
    };
    let groups = rng.gen_range(3..=24);
    let events = gen_history(&mut rng, groups, &cfg, 0.0);
    let mut store = StoreCfg::default();
    if rng.gen_bool(0.3) {
        store.faults.push((rng.gen_range(1..=groups as u64), rng.gen_range(0..=3)));
    }
    Scenario { base_ms: cfg.base_ms, store, events, crash: Crash { after_group: Some(0), in_call: None }, crash2: None }
}

impl Check for C07 {
    fn id(&self) -> &'static str {
        "C07"
    }
    fn title(&self) -> &'static str {
        "A restarted node rebuilds exactly what storage holds; acked writes survive"
    }
    fn level(&self) -> &'static str {
        "fault_enumeration"
    }
    fn engine(&self) -> &'static str {
        "E1 single-node engine: crash = the whole tokio runtime is dropped at the chosen instant (every task cancelled at its await point, in-flight storage call parked after a chosen durable prefix); restart = fresh runtime + KeyspaceGroup::load_states_from_storage on the surviving SimStorage"
    }
    fn rule(&self) -> &'static str {
        "Cases: for each seeded request history (3-24 sequential set/multi_set/del/multi_del/batch/purge requests, 1-3 keyspaces, timestamps near now / hours old / future, occasional storage failure) EVERY crash point of the grid is taken: after request group g for g in 0..24, and inside mutating storage call n in 1..16 with 0, 1 or all of its writes durable (72 crash points per history); the enumeration is complete over that grid for the stated number of histories. Beyond the grid, seeded cases add a second crash after the first restart. After restart: rebuilt set (Serialize, validated) == store rows for every keyspace the store lists; the rest of the history is then replayed with the C02 oracle after every request; every write of an acknowledged request is still in the store (or superseded / purged). Non-trivial = >= 2 storage writes and >= 1 stored row. Distinct = hash of (store state at crash, storage trace, crash position)."
    }
    fn assumptions(&self) -> Vec<String> {
        vec![
            "SimStorage makes each applied write durable at once; a parked call models any durable prefix of an un-acknowledged call".into(),
            "torn writes below a real backend's own commit protocol are out of scope (no seam under SQLite/LMDB)".into(),
            "the 'converges with its peers' clause is checked by C01 (crash/restart events inside cluster runs)".into(),
        ]
    }
    fn components(&self) -> Vec<(&'static str, &'static str)> {
        vec![
            ("KeyspaceGroup::load_states_from_storage, keyspace actors, ConsistencyService handlers, Clock", "real"),
            ("Storage", "SimStorage (harness), lives outside the runtime, parks in-flight calls"),
            ("process crash", "simulated: runtime dropped"),
        ]
    }
    fn budget(&self, tier: Tier) -> Budget {
        match tier {
            Tier::Quick => Budget { wall_secs: 45, max_cases: SLOTS * HISTORIES_QUICK + 20_000, checkpoint_every: 64, workers: 16 },
            Tier::Thorough => Budget { wall_secs: 900, max_cases: SLOTS * HISTORIES_THOROUGH + 1_000_000, checkpoint_every: 64, workers: 16 },
        }
    }
    fn total_cases(&self, tier: Tier) -> Option<u64> {
        Some(self.budget(tier).max_cases)
    }
    fn generate(&self, seed: u64, idx: u64, tier: Tier) -> Value {
        let hist = if tier == Tier::Quick { HISTORIES_QUICK } else { HISTORIES_THOROUGH };
        if idx < SLOTS * hist {
            let mut sc = history(seed, idx / SLOTS);
            let slot = idx % SLOTS;
            sc.crash = if slot < 24 {
                Crash { after_group: Some(slot as usize), in_call: None }
            } else {
                let s = slot - 24;
                let n = s / 3 + 1;
                let prefix = [0u32, 1, u32::MAX][(s % 3) as usize];
                Crash { after_group: None, in_call: Some((n, prefix)) }
            };
            return serde_json::to_value(sc).unwrap();
        }
        let mut rng = rng_from(case_seed(seed, idx));
        let mut sc = history(seed ^ 0x5EED, idx);
        let g = sc.events.len();
        let mk = |rng: &mut rand::rngs::SmallRng| {
            if rng.gen_bool(0.5) {
                Crash { after_group: Some(rng.gen_range(0..=g)), in_call: None }
            } else {
                Crash { after_group: None, in_call: Some((rng.gen_range(1..=g as u64 + 2), [0u32, 1, 2, u32::MAX][rng.gen_range(0..4)])) }
            }
        };
        sc.crash = mk(&mut rng);
        sc.crash2 = Some(mk(&mut rng));
        serde_json::to_value(sc).unwrap()
    }
    fn execute(&self, scenario: &Value) -> Outcome {
        let sc: Scenario = match serde_json::from_value(scenario.clone()) {
            Ok(s) => s,
            Err(e) => return Outcome::invalid(format!("bad scenario: {e}")),
        };
        execute_scenario(&sc)
    }
    fn shrink(&self, sc: &Value) -> Vec<Value> {
        let mut c = Vec::new();
        if sc.get("crash2").map(|c| !c.is_null()).unwrap_or(false) {
            let mut v = sc.clone();
            v["crash2"] = Value::Null;
            c.push(v);
        }
        // removing a request group shifts the crash position; try both shifted and unshifted
        c.extend(shrink_groups(sc));
        if let Some(n) = sc["crash"]["after_group"].as_u64() {
            if n > 0 {
                let mut v = sc.clone();
                v["crash"]["after_group"] = serde_json::json!(n - 1);
                c.push(v);
            }
        }
        c
    }
}
