//! dcsim — deterministic simulation checks for the datacake properties (see /verif/DESIGN.md).

mod e0;
mod e1;
mod e2;
mod framework;

use framework::*;

fn registry() -> Vec<&'static dyn Check> {
    vec![&e0::c03::C03, &e0::c04::C04, &e0::c05::C05, &e0::c08::C08, &e0::c09::C09, &e1::c02::C02, &e1::c07::C07, &e1::c11::C11, &e1::c15::C15, &e1::c16::C16, &e1::c17::C17, &e1::c18::C18, &e2::c01::C01, &e2::c06::C06, &e2::c12::C12, &e2::c13::C13, &e2::c14::C14, &e2::c19::C19]
}

fn usage() -> i32 {
    eprintln!(
        "usage:\n  dcsim check <Cxx> [quick|thorough]\n  dcsim replay <file>\n  dcsim selftest-determinism <Cxx> [n]\n  dcsim gen <Cxx> <idx> [quick|thorough]   (print the scenario of a case)\n  dcsim list"
    );
    2
}

fn seed_from_env() -> u64 {
    std::env::var("VERIF_SEED")
        .ok()
        .and_then(|s| s.trim().parse::<u64>().ok())
        .unwrap_or(DEFAULT_SEED)
}

fn main() {
    let args: Vec<String> = std::env::args().collect();
    let checks = registry();
    let find = |id: &str| checks.iter().copied().find(|c| c.id().eq_ignore_ascii_case(id));
    let code = match args.get(1).map(|s| s.as_str()) {
        Some("list") => {
            for c in &checks {
                println!("{} {} [{}]", c.id(), c.title(), c.level());
            }
            0
        },
        Some("check") => {
            let Some(c) = args.get(2).and_then(|id| find(id)) else {
                std::process::exit(usage());
            };
            let tier = args
                .get(3)
                .map(|s| Tier::parse(s))
                .or_else(|| std::env::var("VERIF_TIER").ok().map(|s| Tier::parse(&s)))
                .unwrap_or(Tier::Quick);
            run_check(c, tier, seed_from_env())
        },
        Some("worker") => {
            // worker <id> <tier> <seed> <worker> <workers> <deadline> <max_cases> <ckpt> <dir>
            let Some(c) = args.get(2).and_then(|id| find(id)) else {
                std::process::exit(2);
            };
            let p = |i: usize| args.get(i).and_then(|s| s.parse::<u64>().ok()).unwrap_or(0);
            let a = WorkerArgs {
                tier: Tier::parse(args.get(3).map(|s| s.as_str()).unwrap_or("quick")),
                seed: p(4),
                worker: p(5),
                workers: p(6).max(1),
                deadline_secs: p(7),
                max_cases: p(8),
                checkpoint_every: p(9),
                dir: std::path::PathBuf::from(args.get(10).cloned().unwrap_or_default()),
                start: args.get(11).and_then(|s| s.parse::<u64>().ok()).unwrap_or(p(5)),
                part: args.get(12).and_then(|s| s.parse::<u32>().ok()).unwrap_or(0),
            };
            run_worker(c, &a)
        },
        Some("exec") => {
            let Some(c) = args.get(2).and_then(|id| find(id)) else {
                std::process::exit(2);
            };
            run_exec(c)
        },
        Some("exec-twice") => {
            // self-test: the same scenario twice in ONE process (state leaking between runs shows here)
            let Some(c) = args.get(2).and_then(|id| find(id)) else {
                std::process::exit(2);
            };
            install_panic_hook();
            let mut s = String::new();
            use std::io::Read;
            std::io::stdin().read_to_string(&mut s).unwrap();
            let sc: serde_json::Value = serde_json::from_str(&s).unwrap();
            let n = args.get(3).and_then(|s| s.parse::<usize>().ok()).unwrap_or(2);
            if let Ok(f) = std::env::var("DCSIM_TRACE") {
                use tracing_subscriber::EnvFilter;
                let _ = tracing_subscriber::fmt().with_env_filter(EnvFilter::new(f)).without_time().with_writer(std::io::stderr).try_init();
            }
            for i in 0..n {
                eprintln!("=== RUN {i}");
                let o = run_case(c, &sc);
                println!("{:016x} {:016x} {} sim_ms={} fp={:016x} probes={:?} faults={:?}", o.trace_hash, o.signature, o.violations.len(), o.sim_ms, o.state_fp, o.probes, o.faults);
            }
            0
        },
        Some("replay") => {
            let Some(p) = args.get(2) else {
                std::process::exit(usage());
            };
            run_replay(&checks, p)
        },
        Some("gen") => {
            let Some(c) = args.get(2).and_then(|id| find(id)) else {
                std::process::exit(usage());
            };
            let idx = args.get(3).and_then(|s| s.parse::<u64>().ok()).unwrap_or(0);
            let tier = Tier::parse(args.get(4).map(|s| s.as_str()).unwrap_or("quick"));
            let sc = c.generate(seed_from_env(), idx, tier);
            println!("{}", serde_json::to_string_pretty(&sc).unwrap());
            0
        },
        Some("selftest-determinism") => {
            let Some(c) = args.get(2).and_then(|id| find(id)) else {
                std::process::exit(usage());
            };
            let n = args.get(3).and_then(|s| s.parse::<u64>().ok()).unwrap_or(200);
            run_determinism_selftest(c, n, seed_from_env())
        },
        _ => usage(),
    };
    std::process::exit(code);
}
