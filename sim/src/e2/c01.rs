//! C01 — the cluster converges: every node ends with the same last-writer-wins documents.
//! (The scenario executor is shared with C06.)

use std::collections::{BTreeMap, BTreeSet};

use rand::seq::SliceRandom;
use rand::Rng;
use serde::{Deserialize, Serialize};
use serde_json::Value;

use super::*;
use crate::e1::fmt_ts;
use crate::framework::*;

#[derive(Serialize, Deserialize, Clone, Debug)]
#[serde(tag = "ev")]
pub enum Ev {
    #[serde(rename = "op")]
    Op { t: u64, node: u8, spec: OpSpec },
    #[serde(rename = "hold")]
    Hold { t: u64, a: u8, b: u8 },
    #[serde(rename = "release")]
    Release { t: u64, a: u8, b: u8 },
    #[serde(rename = "crash")]
    Crash { t: u64, node: u8 },
    #[serde(rename = "restart")]
    Restart { t: u64, node: u8 },
    /// membership view handed to `node` (ids it believes live, itself implied)
    #[serde(rename = "view")]
    View { t: u64, node: u8, members: Vec<u8> },
    /// node `from` re-sends the n-th issued mutation (in issue order) to every other node
    #[serde(rename = "replay")]
    Replay {
        t: u64,
        from: u8,
        nth: usize,
        /// over a connection of its own instead of the node's cached channel (a peer that re-dials)
        #[serde(default)]
        fresh: bool,
    },
    #[serde(rename = "clock_jump")]
    ClockJump { t: u64, node: u8, delta_ms: i64 },
    /// the node stops and comes back on its other IP address (same storage and node id); peers
    /// learn the new address from the next membership view they are handed
    #[serde(rename = "move")]
    Move { t: u64, node: u8 },
    /// the node's next bulk put with more than k documents is applied to k of them and fails
    #[serde(rename = "partial_bulk")]
    PartialBulk { t: u64, node: u8, k: u32 },
    /// from now on the views handed to `node` also name these (ghost id, node whose address it has)
    /// pairs: a peer known under a second node id on the same address - the previous identity of a
    /// process that was restarted under a new id and has not been declared dead yet. An empty
    /// list takes them out again (the old identity is reported as left, with that address).
    #[serde(rename = "ghosts")]
    Ghosts { t: u64, node: u8, ghosts: Vec<(u8, u8)> },
    /// from now on every view names `node` with this data centre (same id, same address): an
    /// attribute of a member changes without the member leaving
    #[serde(rename = "dc_change")]
    DcChange { t: u64, node: u8, dc: String },
    /// hours family: a quiet point (no fault active and no operation issued for minutes): every
    /// running node's store must hold exactly the last-writer-wins documents of the operations
    /// issued so far
    #[serde(rename = "checkpoint")]
    Checkpoint { t: u64 },
    /// the caller of the node's next operation gives up after `after_ms` (drops the future)
    #[serde(rename = "cancel_next")]
    CancelNext {
        t: u64,
        node: u8,
        after_ms: u64,
        /// give up when the call has been left pending this many times instead (an await point
        /// that is passed without virtual time going by cannot be hit by a timer)
        #[serde(default)]
        polls: Option<u32>,
    },
}

impl Ev {
    pub fn t(&self) -> u64 {
        match self {
            Ev::Op { t, .. } | Ev::Hold { t, .. } | Ev::Release { t, .. } | Ev::Crash { t, .. } | Ev::Restart { t, .. } | Ev::View { t, .. } | Ev::Replay { t, .. } | Ev::ClockJump { t, .. } | Ev::Move { t, .. } | Ev::PartialBulk { t, .. } | Ev::Ghosts { t, .. } | Ev::DcChange { t, .. } | Ev::Checkpoint { t } | Ev::CancelNext { t, .. } => *t,
        }
    }
}

#[derive(Serialize, Deserialize, Clone, Debug)]
pub struct Scenario {
    pub cfg: ClusterCfg,
    pub events: Vec<Ev>,
    /// seed for the order of the closing pairwise repair exchanges
    pub closing_seed: u64,
    /// run two closing exchanges at a time (on different nodes)
    pub closing_parallel: bool,
    /// ms to wait after the last event before the closing phase starts
    pub settle_ms: u64,
    /// "explicit": the harness drives the real repair path pair by pair (fresh tracker);
    /// "background": the node's own replication cycle (with the tracker state it accumulated
    /// during the run) is given several full cycles after the faults stopped
    #[serde(default)]
    pub closing_mode: String,
    /// before the closing phase every running node issues one write at level None into a probe
    /// keyspace; a few seconds later (no anti-entropy involved yet) every other running node must
    /// hold it: direct replication addresses exactly the live peers
    #[serde(default)]
    pub probe_direct: bool,
    /// real-membership mode: nodes that are still down when the faults stop are judged as
    /// departures first (every running node's layer and subscriber must drop them, bounded wait)
    /// and only then started again
    #[serde(default)]
    pub judge_departure: bool,
    /// hours family (C08's cluster clause): the history spans hours, so the nodes' own hourly
    /// tombstone purge runs; instead of "within one forgiveness period" the precondition is
    /// timeliness (every operation reaches every node well within the hour: bounded skew, short
    /// outages, a running poller)
    #[serde(default)]
    pub hours: bool,
}

pub struct C01;

pub const BOOT_MS: u64 = 400;

pub struct RunResult {
    pub out: Outcome,
    pub ops: Vec<OpRecord>,
    pub issued: Vec<Issued>,
    pub final_rows: BTreeMap<u8, BTreeMap<(String, u64), (datacake_crdt::HLCTimestamp, Option<Vec<u8>>)>>,
    pub cfg: ClusterCfg,
    pub views_hist: BTreeMap<u8, Vec<(u64, BTreeSet<u8>)>>,
    /// per node: set/store disagreements at the final quiescent point
    pub set_store_diffs: BTreeMap<u8, Vec<String>>,
    /// real-membership mode: at quiescent points, where a subscriber's added-up deltas differ from
    /// the membership layer's own view
    pub membership_diffs: Vec<String>,
    /// per node: where reads through the store handle differ from the node's store at quiescence
    pub read_diffs: BTreeMap<u8, Vec<String>>,
    /// real-membership mode: what the membership layers still got wrong 240 simulated seconds after
    /// the last fault (empty = every node reports every running node at its current address)
    pub membership_stale: Vec<String>,
    /// probe_direct: live peers a probe write did not reach by direct replication
    pub direct_misses: Vec<String>,
    /// probe_direct: writes that were delivered to a node reported as having left
    pub direct_departed: Vec<String>,
    /// hours family: where a running node's live documents differed from last-writer-wins at a quiet point
    pub checkpoint_diffs: Vec<String>,
}

/// real-membership mode: (node -> ids the membership layer reports, with addresses)
fn layer_views(cl: &Cluster) -> BTreeMap<u8, BTreeMap<u8, SocketAddr>> {
    let sh = cl.shared.borrow();
    sh.member_rx.iter().filter(|(n, _)| sh.up.contains(n)).map(|(n, rx)| (*n, rx.borrow().iter().map(|(id, m)| (*id, m.public_addr)).collect())).collect()
}

/// real-membership mode: steps until every running node's membership layer reports exactly the
/// running nodes at their current addresses (bounded); true if reached
fn wait_membership_complete(cl: &mut Cluster, bound_ms: u64) -> Result<bool, String> {
    let deadline = cl.elapsed_ms() + bound_ms;
    loop {
        let want: BTreeMap<u8, SocketAddr> = {
            let sh = cl.shared.borrow();
            sh.up.iter().filter_map(|n| sh.addrs.get(n).map(|a| (*n, *a))).collect()
        };
        let views = layer_views(cl);
        if views.len() == want.len() && views.values().all(|v| *v == want) {
            return Ok(true);
        }
        if cl.elapsed_ms() >= deadline {
            return Ok(false);
        }
        let t = cl.elapsed_ms();
        cl.run_until(t + 250).map_err(|e| format!("simulation error: {e}"))?;
    }
}

/// real-membership mode, C16's oracle: once the membership layer's views have not moved for two
/// simulated seconds, what a subscriber added up must equal the layer's view minus the node itself
fn membership_sums(cl: &mut Cluster, when: &str, out: &mut Outcome) -> Result<Vec<String>, String> {
    let mut last = layer_views(cl);
    let mut stable_since = cl.elapsed_ms();
    let deadline = cl.elapsed_ms() + 30_000;
    while cl.elapsed_ms() < stable_since + 2_000 {
        if cl.elapsed_ms() >= deadline {
            out.probe("membership_never_quiescent_not_judged");
            return Ok(vec![]);
        }
        let t = cl.elapsed_ms();
        cl.run_until(t + 100).map_err(|e| format!("simulation error: {e}"))?;
        let now = layer_views(cl);
        if now != last {
            last = now;
            stable_since = cl.elapsed_ms();
        }
    }
    let mut diffs = Vec::new();
    let sh = cl.shared.borrow();
    for (n, view) in &last {
        let mut others = view.clone();
        others.remove(n);
        let Some(sub) = sh.subscribed.get(n) else { continue };
        if *sub != others {
            diffs.push(format!("{when}: node {n}: the membership layer reports {:?}, the subscriber's changes add up to {:?}", others, sub));
        }
    }
    drop(sh);
    out.probe("membership_sum_checked_at_quiescence");
    Ok(diffs)
}

fn validate(sc: &Scenario) -> Result<(), String> {
    let ids: BTreeSet<u8> = sc.cfg.nodes.iter().map(|n| n.id).collect();
    if ids.len() < 1 || ids.len() > 8 || ids.len() != sc.cfg.nodes.len() {
        return Err("bad node set".into());
    }
    let last = sc.events.iter().map(|e| e.t()).max().unwrap_or(0);
    if sc.hours {
        validate_timely(sc)?;
    } else {
        if sc.cfg.nodes.iter().any(|n| n.skew_ms.abs() > 15 * 60_000) {
            return Err("skew too large for the one-forgiveness-period precondition".into());
        }
        if last > 20 * 60_000 {
            return Err("history too long for the one-forgiveness-period precondition".into());
        }
    }
    for e in &sc.events {
        let ok = match e {
            Ev::Op { node, spec, .. } => ids.contains(node) && !spec.ids.is_empty(),
            Ev::Hold { a, b, .. } | Ev::Release { a, b, .. } => ids.contains(a) && ids.contains(b) && a != b,
            Ev::Crash { node, .. } | Ev::Restart { node, .. } | Ev::ClockJump { node, .. } | Ev::Move { node, .. } | Ev::PartialBulk { node, .. } | Ev::DcChange { node, .. } => ids.contains(node) && (!matches!(e, Ev::DcChange { .. }) || !sc.cfg.real_membership),
            Ev::View { node, members, .. } => ids.contains(node) && members.iter().all(|m| ids.contains(m)),
            Ev::Replay { from, .. } => ids.contains(from),
            Ev::Ghosts { node, ghosts, .. } => ids.contains(node) && ghosts.iter().all(|(g, at)| !ids.contains(g) && ids.contains(at) && at != node),
            Ev::Checkpoint { .. } => sc.hours,
            Ev::CancelNext { node, .. } => ids.contains(node),
        };
        if !ok {
            return Err("event refers to an unknown node".into());
        }
        if let Ev::ClockJump { delta_ms, .. } = e {
            if delta_ms.abs() > 10 * 60_000 {
                return Err("clock jump too large".into());
            }
        }
    }
    Ok(())
}

/// Timeliness precondition of the hours family (C08: "every operation reaches every replica within
/// less than the forgiveness period of its timestamp, clock skew included"): skews within +-5 min,
/// clock jumps within +-2 min in total per node, every link hold and every outage of a node at most
/// 6 min, no stored failure plan beyond a handful of calls, a poller that runs at least every 30 s,
/// no replayed messages (a re-sent hour-old message is not a timely delivery), and every quiet
/// point at least 8 min after the last fault ended and the last operation was issued.
fn validate_timely(sc: &Scenario) -> Result<(), String> {
    if sc.cfg.real_membership {
        return Err("hours family runs on harness-made views".into());
    }
    if sc.cfg.nodes.iter().any(|n| n.skew_ms.abs() > 5 * 60_000) {
        return Err("skew too large for the timeliness precondition".into());
    }
    if sc.cfg.repair_interval_ms > 30_000 || sc.closing_mode != "background" {
        return Err("hours family needs the nodes' own poller".into());
    }
    if sc.cfg.nodes.iter().any(|n| n.storage_faults.len() + n.storage_read_faults.len() > 4) {
        return Err("too many storage failures for the timeliness precondition".into());
    }
    let mut jumps: BTreeMap<u8, i64> = BTreeMap::new();
    let mut open: BTreeMap<String, u64> = BTreeMap::new();
    let mut busy_until = 0u64;
    let mut evs: Vec<&Ev> = sc.events.iter().collect();
    evs.sort_by_key(|e| e.t());
    for e in evs {
        match e {
            Ev::ClockJump { node, delta_ms, .. } => {
                let j = jumps.entry(*node).or_insert(0);
                *j += delta_ms;
                if j.abs() > 120_000 {
                    return Err("clock jumps too large for the timeliness precondition".into());
                }
                busy_until = busy_until.max(e.t());
            },
            Ev::Hold { t, a, b } => {
                open.insert(format!("h{}-{}", a.min(b), a.max(b)), *t);
            },
            Ev::Release { t, a, b } => {
                if let Some(t0) = open.remove(&format!("h{}-{}", a.min(b), a.max(b))) {
                    if t - t0 > 6 * 60_000 {
                        return Err("link hold too long for the timeliness precondition".into());
                    }
                }
                busy_until = busy_until.max(*t);
            },
            Ev::Crash { t, node } => {
                open.insert(format!("c{node}"), *t);
            },
            Ev::Restart { t, node } => {
                if let Some(t0) = open.remove(&format!("c{node}")) {
                    if t - t0 > 6 * 60_000 {
                        return Err("outage too long for the timeliness precondition".into());
                    }
                }
                busy_until = busy_until.max(*t);
            },
            Ev::Replay { .. } | Ev::Move { .. } | Ev::Ghosts { .. } | Ev::DcChange { .. } | Ev::CancelNext { .. } => return Err("event kind not used in the hours family".into()),
            Ev::Checkpoint { t } => {
                if !open.is_empty() || *t < busy_until + 8 * 60_000 {
                    return Err("quiet point too close to a fault or an operation".into());
                }
            },
            Ev::Op { t, .. } | Ev::View { t, .. } | Ev::PartialBulk { t, .. } => busy_until = busy_until.max(*t),
        }
    }
    if !open.is_empty() {
        return Err("a hold or an outage never ends".into());
    }
    Ok(())
}

/// Executes a cluster scenario: active phase, constructed quiescence, closing all-pairs repair,
/// and returns everything the oracles need.
pub fn run_cluster(sc: &Scenario, prop: &str) -> Result<RunResult, String> {
    validate(sc)?;
    let mut out = Outcome::default();
    let mut cl = Cluster::new(sc.cfg.clone());
    let ids = cl.all_ids();
    let full: BTreeSet<u8> = ids.iter().copied().collect();
    let step = |cl: &mut Cluster, t: u64| cl.run_until(t).map_err(|e| format!("simulation error: {e}"));

    let real = sc.cfg.real_membership;
    let mut membership_diffs: Vec<String> = Vec::new();
    let mut membership_stale: Vec<String> = Vec::new();
    let mut checkpoint_diffs: Vec<String> = Vec::new();
    step(&mut cl, BOOT_MS)?;
    if real {
        // the cluster forms by gossip
        if !wait_membership_complete(&mut cl, 60_000)? {
            out.probe("real_membership_did_not_form_in_60s");
        }
        let t = cl.elapsed_ms();
        step(&mut cl, (t / 1000 + 1) * 1000)?;
    } else {
        for n in &ids {
            cl.set_view(*n, &full);
        }
        step(&mut cl, BOOT_MS + 100)?;
    }

    let mut evs: Vec<(usize, &Ev)> = sc.events.iter().enumerate().collect();
    evs.sort_by_key(|(i, e)| (e.t(), *i));
    let mut held: BTreeSet<(u8, u8)> = BTreeSet::new();
    let mut crashed: BTreeSet<u8> = BTreeSet::new();
    let mut ever_restarted: BTreeSet<u8> = BTreeSet::new();
    let mut next_op = 0usize;
    let t0 = if real { cl.elapsed_ms() } else { BOOT_MS + 100 };
    for (_, ev) in evs {
        step(&mut cl, t0 + ev.t())?;
        match ev {
            Ev::Op { node, spec, .. } => {
                let id = next_op;
                next_op += 1;
                if !cl.send_cmd(*node, Cmd::Op { op_id: id, spec: spec.clone() }) {
                    out.probe("op_on_down_node_skipped");
                }
            },
            Ev::Hold { a, b, .. } => {
                cl.sim.hold(cl.host_of(*a), cl.host_of(*b));
                held.insert((*a.min(b), *a.max(b)));
                out.fault("link_hold");
            },
            Ev::Release { a, b, .. } => {
                for ha in [host_name(*a), alt_host_name(*a)] {
                    for hb in [host_name(*b), alt_host_name(*b)] {
                        cl.sim.release(ha.clone(), hb);
                    }
                }
                held.remove(&(*a.min(b), *a.max(b)));
            },
            Ev::Crash { node, .. } => {
                if !crashed.contains(node) {
                    cl.crash(*node);
                    crashed.insert(*node);
                    out.fault("node_crash");
                }
            },
            Ev::Restart { node, .. } => {
                if crashed.remove(node) {
                    cl.restart(*node);
                    ever_restarted.insert(*node);
                    out.fault("node_restart");
                }
            },
            Ev::View { .. } if real => {},
            Ev::View { node, members, .. } => {
                let m: BTreeSet<u8> = members.iter().copied().collect();
                if m.len() + 1 < full.len() || (!m.contains(node) && m.len() < full.len() - 1) {
                    out.fault("partial_membership_view");
                }
                cl.set_view(*node, &m);
            },
            Ev::Replay { from, nth, fresh, .. } => {
                let issued = issued_ops(&cl.shared.borrow());
                if let Some(i) = issued.get(*nth % issued.len().max(1)) {
                    let origin = i.ts.node();
                    // only a node that holds the mutation can (re)send it: its clock is then
                    // already past the mutation's timestamp, as in every real sender
                    let holds = |n: u8| cl.shared.borrow().stores.get(&n).map(|s| s.st.lock().rows.get(&i.ks).and_then(|m| m.get(&i.id)).map(|r| r.ts >= i.ts).unwrap_or(false)).unwrap_or(false);
                    let from = if holds(*from) { *from } else { origin };
                    let from = &from;
                    if cl.send_cmd(*from, Cmd::Replay { ks: i.ks.clone(), id: i.id, ts: i.ts, data: i.data.clone(), origin, fresh: *fresh }) {
                        out.fault("replayed_replication_message");
                    }
                }
            },
            Ev::Move { node, .. } => {
                cl.move_node(*node);
                crashed.remove(node);
                // the address changed: peers are told left+joined by the next view, no flap needed
                ever_restarted.remove(node);
                out.fault("node_moved_to_another_address");
            },
            Ev::PartialBulk { node, k, .. } => {
                if let Some(st) = cl.shared.borrow().stores.get(node) {
                    st.st.lock().arm_partial_bulk = Some(*k);
                }
                out.fault("bulk_write_armed_to_fail_partway");
            },
            Ev::CancelNext { node, after_ms, polls, .. } => {
                cl.shared.borrow_mut().cancel_next.insert(*node, (*after_ms, *polls));
                out.fault("caller_gives_up_after_a_while");
            },
            Ev::Checkpoint { .. } => {
                let sh = cl.shared.borrow();
                let want = lww(&issued_ops(&sh));
                let now = cl.elapsed_ms();
                for n in sh.up.iter() {
                    let st = sh.stores[n].st.lock();
                    let mut live: BTreeMap<(String, u64), datacake_crdt::HLCTimestamp> = BTreeMap::new();
                    for (ks, rows) in &st.rows {
                        for (id, r) in rows {
                            if r.data.is_some() {
                                live.insert((ks.clone(), *id), r.ts);
                            }
                        }
                    }
                    for ((ks, id), (ts, is_live)) in &want {
                        match (is_live, live.get(&(ks.clone(), *id))) {
                            (true, Some(t)) if t == ts => {},
                            (true, got) => checkpoint_diffs.push(format!("quiet point at {now} ms: node {n} keyspace {ks} id {id}: the newest operation is a put at {} but the node holds {}", fmt_ts(*ts), got.map(|t| format!("a put at {}", fmt_ts(*t))).unwrap_or_else(|| "no live document".into()))),
                            (false, Some(t)) => checkpoint_diffs.push(format!("quiet point at {now} ms: node {n} keyspace {ks} id {id}: the newest operation is a delete at {} but the node holds a live document at {}", fmt_ts(*ts), fmt_ts(*t))),
                            (false, None) => {},
                        }
                    }
                    for ((ks, id), t) in &live {
                        if !want.contains_key(&(ks.clone(), *id)) {
                            checkpoint_diffs.push(format!("quiet point at {now} ms: node {n} keyspace {ks} id {id}: live at {} but nobody wrote it", fmt_ts(*t)));
                        }
                    }
                }
                drop(sh);
                out.probe("quiet_points_judged");
            },
            Ev::Ghosts { node, ghosts, .. } => {
                cl.shared.borrow_mut().ghosts.insert(*node, ghosts.clone());
                let cur: BTreeSet<u8> = cl.shared.borrow().views.get(node).cloned().unwrap_or_else(|| full.clone());
                cl.set_view(*node, &cur);
                if !ghosts.is_empty() {
                    out.fault("peer_known_under_a_second_node_id");
                }
            },
            Ev::DcChange { node, dc, .. } => {
                cl.shared.borrow_mut().dc_override.insert(*node, dc.clone());
                // every running node is handed its current view again, now naming the new data centre
                let up: Vec<u8> = cl.shared.borrow().up.iter().copied().collect();
                for n in up {
                    let cur: BTreeSet<u8> = cl.shared.borrow().views.get(&n).cloned().unwrap_or_else(|| full.clone());
                    cl.set_view(n, &cur);
                }
                out.fault("member_changed_its_data_centre");
            },
            Ev::ClockJump { node, delta_ms, .. } => {
                *cl.clock_jumps.borrow_mut().entry(*node).or_insert(0) += delta_ms;
                *cl.shared.borrow_mut().clock_jump_count.entry(*node).or_insert(0) += 1;
                out.fault(if *delta_ms < 0 { "clock_jump_backwards" } else { "clock_jump_forwards" });
            },
        }
    }
    let active_end = cl.elapsed_ms();

    // ---- constructed quiescence: all faults stop ----
    // (a give-up that was armed for a node's next operation and never used must not hit the
    // harness's own probe writes)
    cl.shared.borrow_mut().cancel_next.clear();
    for (a, b) in held.iter() {
        for ha in [host_name(*a), alt_host_name(*a)] {
            for hb in [host_name(*b), alt_host_name(*b)] {
                cl.sim.release(ha.clone(), hb);
            }
        }
    }
    if real && sc.judge_departure && !crashed.is_empty() {
        // nodes that are gone: every running node's membership layer has to drop them (bounded
        // wait), and what its subscriber added up has to follow
        let gone = wait_membership_complete(&mut cl, 240_000)?;
        membership_diffs.extend(membership_sums(&mut cl, "while nodes were down", &mut out)?);
        if !gone {
            let want: BTreeMap<u8, SocketAddr> = {
                let sh = cl.shared.borrow();
                sh.up.iter().filter_map(|n| sh.addrs.get(n).map(|a| (*n, *a))).collect()
            };
            for (n, v) in layer_views(&cl) {
                if v != want {
                    membership_stale.push(format!("while nodes {:?} were down: node {n} reports {:?} but the running nodes are {:?}", crashed, v, want));
                }
            }
        }
        out.fault("node_gone_until_the_faults_stop");
    }
    for n in crashed.clone() {
        cl.restart(n);
        ever_restarted.insert(n);
    }
    let t = cl.elapsed_ms();
    step(&mut cl, t + 300)?;
    // a node with a slow start-up scan needs a while before it is up again
    let deadline = cl.elapsed_ms() + 30_000;
    while cl.shared.borrow().up.len() < ids.len() && cl.elapsed_ms() < deadline {
        let t = cl.elapsed_ms();
        step(&mut cl, t + 100)?;
    }
    // restarted nodes are announced as left, then joined (what makes peers drop dead channels)
    if !ever_restarted.is_empty() && !real {
        for n in &ids {
            let v: BTreeSet<u8> = full.iter().copied().filter(|x| !ever_restarted.contains(x) || x == n).collect();
            cl.set_view(*n, &v);
        }
        let t = cl.elapsed_ms();
        step(&mut cl, t + 100)?;
    }
    if !real {
        // a second identity of a peer has been declared dead by now
        cl.shared.borrow_mut().ghosts.clear();
        for n in &ids {
            cl.set_view(*n, &full);
        }
    }
    // wait for every operation to return (bounded), plus the settle time
    let deadline = cl.elapsed_ms() + 40_000;
    loop {
        let pending = cl.shared.borrow().ops.iter().filter(|o| o.returned_ms.is_none()).count();
        if pending == 0 || cl.elapsed_ms() >= deadline {
            if pending > 0 {
                out.probe_n("operations_never_returned", pending as u64);
            }
            break;
        }
        let t = cl.elapsed_ms();
        step(&mut cl, t + 50)?;
    }
    let t = cl.elapsed_ms();
    step(&mut cl, t + sc.settle_ms)?;

    // ---- closing phase: every node completes an exchange with every other node ----
    let mut incomplete: Vec<String> = Vec::new();
    let mut closing_mode = sc.closing_mode.clone();
    if real {
        // the gossip layer has to re-admit everybody first (bounded); the subscriber oracle is
        // evaluated once its views stopped moving
        let complete = wait_membership_complete(&mut cl, 240_000)?;
        membership_diffs.extend(membership_sums(&mut cl, "after the faults stopped", &mut out)?);
        if !complete {
            let want: BTreeMap<u8, SocketAddr> = {
                let sh = cl.shared.borrow();
                sh.up.iter().filter_map(|n| sh.addrs.get(n).map(|a| (*n, *a))).collect()
            };
            for (n, v) in layer_views(&cl) {
                if v != want {
                    membership_stale.push(format!("node {n} reports {:?} but the running nodes are {:?}", v, want));
                }
            }
        }
        if complete {
            out.probe("real_membership_complete_after_faults");
            closing_mode = "background".into();
        } else {
            // peers the gossip layer does not re-admit are not polled: the exchanges are then
            // driven explicitly (the property presupposes them)
            out.probe("real_membership_incomplete_after_faults");
            closing_mode = "explicit".into();
        }
    }
    // ---- direct replication probe (before any closing exchange) ----
    let mut direct_misses: Vec<String> = Vec::new();
    let mut direct_departed: Vec<String> = Vec::new();
    let mut probe_direct = sc.probe_direct;
    if probe_direct {
        // the probe judges nodes that have known the full membership for a while: a node needs a
        // moment after (re)starting before its store has been told about its peers
        let deadline = cl.elapsed_ms() + 15_000;
        loop {
            let now = cl.elapsed_ms();
            let settled = {
                let sh = cl.shared.borrow();
                let want: BTreeSet<u8> = sh.up.iter().copied().collect();
                sh.up.iter().all(|n| match sh.views_hist.get(n).and_then(|h| h.last()) {
                    Some((t, v)) => *t + 3_000 <= now && *v == want,
                    None => false,
                })
            };
            if settled {
                break;
            }
            if now >= deadline {
                probe_direct = false;
                out.probe("direct_replication_probe_skipped_membership_not_settled");
                if std::env::var_os("DCSIM_DEBUG").is_some() {
                    let sh = cl.shared.borrow();
                    eprintln!("probe skipped at {now}: up={:?} views={:?}", sh.up, sh.views_hist.iter().map(|(n, h)| (*n, h.last().cloned())).collect::<Vec<_>>());
                }
                break;
            }
            step(&mut cl, now + 250)?;
        }
    }
    if probe_direct {
        // the faults are over: a planned storage failure must not swallow the probe itself
        for st in cl.shared.borrow().stores.values() {
            let mut st = st.st.lock();
            st.faults.clear();
            st.read_faults.clear();
        }
        let up_now: Vec<u8> = cl.shared.borrow().up.iter().copied().collect();
        let base_id = 1_000_000usize;
        for (i, n) in up_now.iter().enumerate() {
            cl.send_cmd(*n, Cmd::Op { op_id: base_id + i, spec: OpSpec { kind: "put".into(), ks: "zz-probe".into(), ids: vec![*n as u64], level: "None".into(), dup: false, empty: false } });
        }
        // one batch interval (1 s) plus transport; far below any repair interval used with it
        let t = cl.elapsed_ms();
        step(&mut cl, t + 4_000)?;
        let self_now = cl.elapsed_ms();
        let sh = cl.shared.borrow();
        for n in &up_now {
            let written = row_of(&sh.stores[n], "zz-probe", *n as u64).is_some();
            if !written {
                continue;
            }
            for m in &up_now {
                if m != n && row_of(&sh.stores[m], "zz-probe", *n as u64).is_none() {
                    let op = sh.ops.iter().find(|o| o.node == *n && o.spec.ks == "zz-probe");
                    direct_misses.push(format!(
                        "a level-None write on node {n} (invoked at {:?} ms, returned {:?} with {:?}) had not reached live node {m} (address {:?}) by {} ms; node {n}'s membership layer reports {:?}",
                        op.map(|o| o.invoked_ms),
                        op.and_then(|o| o.returned_ms),
                        op.and_then(|o| o.result.clone()),
                        sh.addrs.get(m),
                        self_now,
                        sh.views.get(n)
                    ));
                }
            }
        }
        drop(sh);
        out.probe("direct_replication_probed");
        // ... and nobody else: one running node is reported as having left to all the others (its
        // process stays up, anti-entropy is off), then the others write again. Nothing of that
        // may arrive at the node that left - replication addresses exactly the live peers.
        if !sc.cfg.real_membership && sc.cfg.repair_interval_ms >= 3_600_000 && up_now.len() >= 2 {
            let gone = up_now[(sc.closing_seed % up_now.len() as u64) as usize];
            let rest: BTreeSet<u8> = up_now.iter().copied().filter(|n| *n != gone).collect();
            // no second identity may keep the departed node's address in anybody's view
            cl.shared.borrow_mut().ghosts.clear();
            for n in &rest {
                cl.set_view(*n, &rest);
            }
            // the departed node is told it is alone, so nothing it does brings the writes to it
            cl.set_view(gone, &BTreeSet::new());
            let t = cl.elapsed_ms();
            step(&mut cl, t + 3_000)?;
            for (i, n) in rest.iter().enumerate() {
                cl.send_cmd(*n, Cmd::Op { op_id: base_id + 100 + i, spec: OpSpec { kind: "put".into(), ks: "zz-probe-2".into(), ids: vec![*n as u64], level: "None".into(), dup: false, empty: false } });
            }
            let t = cl.elapsed_ms();
            step(&mut cl, t + 4_000)?;
            {
                let sh = cl.shared.borrow();
                for n in &rest {
                    if row_of(&sh.stores[&gone], "zz-probe-2", *n as u64).is_some() {
                        direct_departed.push(format!(
                            "node {gone} was reported as having left to node {n} (3 s earlier, membership {:?}), yet a level-None write issued on node {n} afterwards was delivered to it",
                            sh.views.get(n)
                        ));
                    }
                }
            }
            out.probe("departed_peer_probed");
            // back to the full membership for the closing phase
            let all_up: BTreeSet<u8> = up_now.iter().copied().collect();
            for n in &up_now {
                cl.set_view(*n, &all_up);
            }
            let t = cl.elapsed_ms();
            step(&mut cl, t + 1_500)?;
        }
    }

    if closing_mode == "background" {
        if sc.cfg.repair_interval_ms > 10_000 {
            return Err("background closing needs a running poller (repair interval <= 10 s)".into());
        }
        // every cycle polls every member and re-syncs what changed; after the faults stopped
        // each cycle is a completed exchange with every peer. Give it six cycles.
        // a fetch that fails (injected document-read failure on the peer) stalls that poller for
        // its 5 s progress timeout before the next cycle retries, and so does a store failure while
        // a repair exchange is applied: every configured failure may still lie ahead, so each one
        // extends the window
        let read_faults: u64 = sc.cfg.nodes.iter().map(|n| (n.storage_read_faults.len() + n.storage_faults.len()) as u64).sum();
        let t = cl.elapsed_ms();
        step(&mut cl, t + 6 * sc.cfg.repair_interval_ms + 8_000 + 6_000 * read_faults)?;
        out.probe("closing_by_background_poller");
    } else {
        let mut pairs: Vec<(u8, u8)> = Vec::new();
        for i in &ids {
            for j in &ids {
                if i != j {
                    pairs.push((*i, *j));
                }
            }
        }
        let mut rng = rng_from(sc.closing_seed);
        pairs.shuffle(&mut rng);
        // every configured document-read failure may still lie ahead and fail one attempt
        let max_tries: u32 = 3 + sc.cfg.nodes.iter().map(|n| n.storage_read_faults.len() as u32).sum::<u32>();
        let mut rep_id = 0usize;
        let mut queue: std::collections::VecDeque<(u8, u8, u32)> = pairs.iter().map(|(a, b)| (*a, *b, 0)).collect();
        let width = if sc.closing_parallel { 2 } else { 1 };
        let mut inflight: Vec<(usize, u8, u8, u32, u64)> = Vec::new();
        while !queue.is_empty() || !inflight.is_empty() {
            while inflight.len() < width {
                // at most one exchange per repairing node at a time
                let pos = queue.iter().position(|(a, _, _)| !inflight.iter().any(|f| f.1 == *a));
                let Some(pos) = pos else { break };
                let (a, b, tries) = queue.remove(pos).unwrap();
                rep_id += 1;
                cl.shared.borrow_mut().repairs.push(RepairRecord { rep_id, node: a, peer: b, result: None });
                if !cl.send_cmd(a, Cmd::Repair { rep_id, peer: b }) {
                    return Err(format!("harness: node {a} is not up in the closing phase"));
                }
                inflight.push((rep_id, a, b, tries, cl.elapsed_ms()));
            }
            let t = cl.elapsed_ms();
            step(&mut cl, t + 20)?;
            let mut still = Vec::new();
            for (rid, a, b, tries, started) in inflight.drain(..) {
                let res = cl.shared.borrow().repairs.iter().find(|r| r.rep_id == rid).and_then(|r| r.result.clone());
                match res {
                    None => {
                        if cl.elapsed_ms() > started + 60_000 {
                            incomplete.push(format!("exchange {a}<-{b} did not finish within 60 simulated seconds"));
                        } else {
                            still.push((rid, a, b, tries, started));
                        }
                    },
                    Some(Ok(unsynced)) if unsynced.is_empty() => {
                        out.probe("closing_exchange_completed");
                    },
                    Some(Ok(unsynced)) => {
                        if tries < max_tries {
                            queue.push_back((a, b, tries + 1));
                            out.probe("closing_exchange_repeated");
                        } else {
                            incomplete.push(format!("exchange {a}<-{b} still reports keyspaces {:?} unsynced after {} attempts", unsynced, max_tries + 1));
                        }
                    },
                    Some(Err(e)) => {
                        if tries < max_tries {
                            queue.push_back((a, b, tries + 1));
                            out.probe("closing_exchange_rpc_error_retried");
                        } else {
                            incomplete.push(format!("exchange {a}<-{b} failed: {e}"));
                        }
                    },
                }
            }
            inflight = still;
        }
        let t = cl.elapsed_ms();
        step(&mut cl, t + 200)?;

    }
    if !incomplete.is_empty() {
        out.violate(format!("{prop}/closing-repair-exchange-does-not-complete"), incomplete.join("; "));
    }
    // every node compares its keyspace sets with its store (C02's oracle, at quiescence)
    let up_now: Vec<u8> = cl.shared.borrow().up.iter().copied().collect();
    // the faults are over: the reads of the snapshot must not run into a planned read failure
    for st in cl.shared.borrow().stores.values() {
        st.st.lock().read_faults.clear();
    }
    for n in &up_now {
        cl.send_cmd(*n, Cmd::Snapshot { snap_id: 1 });
    }
    // (reads and scans of a slow store take their time)
    let t = cl.elapsed_ms();
    step(&mut cl, t + 300)?;
    for _ in 0..40 {
        if cl.shared.borrow().snapshots.keys().filter(|(s, _)| *s == 1).count() >= up_now.len() {
            break;
        }
        let t = cl.elapsed_ms();
        step(&mut cl, t + 100)?;
    }
    let answered = cl.shared.borrow().snapshots.keys().filter(|(s, _)| *s == 1).count();
    out.probe_n("set_store_snapshots_taken", answered as u64);
    if answered < up_now.len() {
        out.probe_n("set_store_snapshot_unanswered", (up_now.len() - answered) as u64);
    }

    // ---- collect ----
    let sh = cl.shared.borrow();
    if std::env::var_os("DCSIM_DEBUG").is_some() {
        for (n, st) in &sh.stores {
            let st = st.st.lock();
            for c in &st.calls {
                eprintln!("STORE {n} call#{} {} {} items={:?} applied={} ok={}", c.no, c.kind, c.keyspace, c.items.iter().map(|(k, t)| format!("{k}@{}", fmt_ts(*t))).collect::<Vec<_>>(), c.applied, c.ok);
            }
        }
    }
    let issued = issued_ops(&sh);
    let mut final_rows = BTreeMap::new();
    for (n, st) in &sh.stores {
        let st = st.st.lock();
        let mut m = BTreeMap::new();
        for (ks, rows) in &st.rows {
            for (id, r) in rows {
                m.insert((ks.clone(), *id), (r.ts, r.data.clone()));
            }
        }
        final_rows.insert(*n, m);
        out.fault_n("storage_call_failed", st.faults_fired);
        let purged: u64 = st.calls.iter().filter(|c| c.kind == "remove_tombstones" && c.ok).map(|c| c.applied as u64).sum();
        if purged > 0 {
            out.probe_n("tombstones_purged_by_the_nodes_own_pass", purged);
        }
    }
    out.fault_n("replayed_message_rejected_by_rpc", sh.replay_errors);
    let cut = sh.ops.iter().filter(|o| o.result.as_deref() == Some("cancelled")).count() as u64;
    if cut > 0 {
        out.probe_n("operations_cut_short_by_their_caller", cut);
    }
    for (k, v) in datacake_crdt::verif::take_probes() {
        out.probe_n(k, v);
    }
    let mut tr = sh.log.clone();
    for (n, st) in &sh.stores {
        tr.u64(*n as u64).u64(st.trace_hash());
    }
    out.trace_hash = tr.finish();
    let mut sig = Fnv::new();
    for (n, st) in &sh.stores {
        let st = st.st.lock();
        sig.u64(*n as u64);
        for c in &st.calls {
            sig.str(c.kind).u64(c.applied as u64);
            for (k, t) in &c.items {
                sig.u64(*k).u64(t.node() as u64);
            }
        }
    }
    out.signature = sig.finish();
    let mut fp = Fnv::new();
    for (n, st) in &sh.stores {
        fp.u64(*n as u64).u64(st.fingerprint());
    }
    out.state_fp = fp.finish();
    out.sim_ms = cl.elapsed_ms();
    let ops = sh.ops.clone();
    let views_hist = sh.views_hist.clone();
    let set_store_diffs: BTreeMap<u8, Vec<String>> = sh.snapshots.iter().filter(|((s, _), _)| *s == 1).map(|((_, n), d)| (*n, d.clone())).collect();
    let read_diffs: BTreeMap<u8, Vec<String>> = sh.read_diffs.iter().filter(|((s, _), _)| *s == 1).map(|((_, n), d)| (*n, d.clone())).collect();
    let _ = active_end;
    let cfg = sc.cfg.clone();
    drop(sh);
    drop(cl);
    Ok(RunResult { out, ops, issued, final_rows, cfg, views_hist, set_store_diffs, membership_diffs, read_diffs, membership_stale, direct_misses, direct_departed, checkpoint_diffs })
}

/// The C01 oracle.
pub fn judge_convergence(r: &mut RunResult) {
    // "return ... from reads": what the store handle returns is what the node's store holds
    for (n, diffs) in r.read_diffs.clone() {
        if !diffs.is_empty() {
            r.out.violate("C01/read-through-handle-differs-from-store", format!("node {n}: {}", diffs.iter().take(4).cloned().collect::<Vec<_>>().join("; ")));
        }
    }
    // an acknowledged operation that left no write of its own on its issuer although the issuer's
    // row for the id was older than the issuer's wall clock (so older than the operation): the
    // operation is part of "all operations issued", and whatever the cluster ends with for that id
    // cannot be older than it
    for o in r.ops.clone() {
        let acked = o.result.as_deref().map(|x| x == "ok" || x.starts_with("consistency:")).unwrap_or(false);
        if !acked {
            continue;
        }
        for (id, wall_lo) in &o.lost_on_issuer {
            for (n, rows) in &r.final_rows {
                let newest = rows.get(&(o.spec.ks.clone(), *id)).map(|(t, _)| t.datacake_timestamp().as_millis() as u64);
                if newest.map(|t| t < *wall_lo).unwrap_or(false) {
                    r.out.violate(
                        "C01/acknowledged-operation-applied-nowhere",
                        format!(
                            "op#{} ({} {} id {id} on node {}) returned {:?} with the issuer's clock at >= {wall_lo} ms, wrote nothing on its issuer, and node {n} ends with {:?} for the id - older than the operation",
                            o.op_id,
                            o.spec.kind,
                            o.spec.ks,
                            o.node,
                            o.result,
                            rows.get(&(o.spec.ks.clone(), *id)).map(|(t, d)| (fmt_ts(*t), d.is_some()))
                        ),
                    );
                    break;
                }
            }
        }
    }
    let want = lww(&r.issued);
    let data_of: BTreeMap<(String, u64, u64), Option<Vec<u8>>> = r.issued.iter().map(|i| ((i.ks.clone(), i.id, i.ts.as_u64()), i.data.clone())).collect();
    let nodes: Vec<u8> = r.final_rows.keys().copied().collect();
    for n in &nodes {
        let rows = &r.final_rows[n];
        // every expected document
        for ((ks, id), (ts, live)) in &want {
            let got = rows.get(&(ks.clone(), *id));
            let got_live = got.and_then(|(t, d)| d.as_ref().map(|d| (*t, d.clone())));
            if *live {
                let bytes = data_of.get(&(ks.clone(), *id, ts.as_u64())).cloned().flatten().unwrap_or_default();
                match &got_live {
                    Some((t, d)) if t == ts && *d == bytes => {},
                    Some((t, d)) if t == ts => r.out.violate(
                        "C01/final-document-has-wrong-bytes",
                        format!("node {n} keyspace {ks} id {id}: timestamp {} is right but bytes {:?} != {:?}", fmt_ts(*t), String::from_utf8_lossy(d), String::from_utf8_lossy(&bytes)),
                    ),
                    Some((t, _)) if t < ts => r.out.violate(
                        "C01/final-document-is-stale",
                        format!("node {n} keyspace {ks} id {id}: holds put at {} but the greatest-timestamp operation is a put at {}", fmt_ts(*t), fmt_ts(*ts)),
                    ),
                    Some((t, _)) => r.out.violate(
                        "C01/final-document-newer-than-any-issued-operation",
                        format!("node {n} keyspace {ks} id {id}: holds {} but the newest issued operation is {}", fmt_ts(*t), fmt_ts(*ts)),
                    ),
                    None => r.out.violate(
                        "C01/live-document-missing",
                        format!("node {n} keyspace {ks} id {id}: absent, but the greatest-timestamp operation is a put at {} (node holds {:?})", fmt_ts(*ts), got.map(|(t, d)| (fmt_ts(*t), d.is_some()))),
                    ),
                }
            } else if let Some((t, _)) = &got_live {
                r.out.violate(
                    "C01/deleted-document-still-live",
                    format!("node {n} keyspace {ks} id {id}: live at {} but the greatest-timestamp operation is a delete at {}", fmt_ts(*t), fmt_ts(*ts)),
                );
            }
        }
        // nothing else may be live
        for ((ks, id), (t, d)) in rows {
            if d.is_some() && !want.contains_key(&(ks.clone(), *id)) {
                r.out.violate("C01/document-nobody-wrote-is-live", format!("node {n} keyspace {ks} id {id} live at {}", fmt_ts(*t)));
            }
        }
    }
    // pairwise equality of live documents (implied by the above, reported separately for clarity)
    for w in nodes.windows(2) {
        let live = |n: u8| -> BTreeMap<(String, u64), (datacake_crdt::HLCTimestamp, Vec<u8>)> { r.final_rows[&n].iter().filter_map(|(k, (t, d))| d.as_ref().map(|d| (k.clone(), (*t, d.clone())))).collect() };
        if live(w[0]) != live(w[1]) && r.out.violations.is_empty() {
            r.out.violate("C01/nodes-return-different-live-documents", format!("nodes {} and {} differ after the closing exchanges", w[0], w[1]));
        }
    }
}

pub fn nontrivial_cluster(r: &RunResult) -> bool {
    // at least two origins wrote the same (keyspace, id), and some fault or reordering happened
    let mut per: BTreeMap<(String, u64), BTreeSet<u8>> = BTreeMap::new();
    for i in &r.issued {
        per.entry((i.ks.clone(), i.id)).or_default().insert(i.ts.node());
    }
    let contended = per.values().any(|s| s.len() >= 2);
    let faults: u64 = r.out.faults.values().sum();
    contended && faults > 0
}

pub struct GenKnobs {
    pub max_nodes: usize,
    pub max_ops: usize,
    pub span_ms: u64,
    pub level_bias_none: f64,
    /// probability that a case names a peer under a second node id for a while (see `Ev::Ghosts`);
    /// zero for C06, whose oracle counts distinct holders per member of the view
    pub ghosts: f64,
    /// probability that a case contains one bulk call of more than a thousand documents
    pub big_bulk: f64,
}


/// "Late arrival" family: a node that is left out of direct replication (its peers' views do not
/// name it) learns of a put and the delete that follows it only through its own anti-entropy
/// cycles; cycles later the put (the OLDER operation) finally arrives as a direct message - delayed,
/// re-sent, overtaken. Nothing changes on the peers afterwards, so the node's tracker has no
/// reason to fetch their state again; closing is by the nodes' own pollers.
pub fn gen_late_arrival_scenario(rng: &mut rand::rngs::SmallRng) -> Scenario {
    let n = rng.gen_range(3..=4u8);
    let nodes: Vec<NodeCfg> = (1..=n)
        .map(|id| NodeCfg {
            id,
            dc: "dc0".to_string(),
            skew_ms: if rng.gen_bool(0.3) { rng.gen_range(-20_000..20_000) } else { 0 },
            storage_faults: vec![],
            storage_latency_max_ms: if rng.gen_bool(0.3) { rng.gen_range(1..20) } else { 0 },
            storage_scan_latency_max_ms: 0,
            storage_read_faults: vec![],
            blunt_removal: false,
            removal_faults: vec![],
        })
        .collect();
    let repair = rng.gen_range(1_000..2_500u64);
    let cfg = ClusterCfg {
        nodes,
        tick_ms: *[1u64, 2, 5].choose(rng).unwrap(),
        latency_ms: (1, *[2u64, 10, 40].choose(rng).unwrap()),
        net_seed: rng.gen(),
        base_ms: rng.gen_range(1_000_000_000u64..60_000_000_000),
        repair_interval_ms: repair,
        jitter_sites: vec![],
        hook_seed: rng.gen(),
        real_membership: false,
        prefill: None,
    };
    let late = n; // the node nobody replicates to directly
    let inner: Vec<u8> = (1..n).collect();
    let mut events = Vec::new();
    for p in &inner {
        events.push(Ev::View { t: 40, node: *p, members: inner.clone() });
    }
    let ks = "ks0".to_string();
    let op = |kind: &str, id: u64, level: &str| OpSpec { kind: kind.to_string(), ks: ks.clone(), ids: vec![id], level: level.to_string(), dup: false, empty: false };
    // one to three ids go through put (on one inner node) then delete (on any inner node)
    let k = rng.gen_range(1..=3u64);
    let mut t = 600;
    for id in 0..k {
        let putter = *inner.choose(rng).unwrap();
        events.push(Ev::Op { t, node: putter, spec: op("put", id, if rng.gen_bool(0.5) { "None" } else { "One" }) });
        // sometimes the late node sees the put in time (then nothing is special about the id)
        t += rng.gen_range(40..900);
        events.push(Ev::Op { t, node: *inner.choose(rng).unwrap(), spec: op(if rng.gen_bool(0.7) { "del" } else { "del_many" }, id, "None") });
        t += rng.gen_range(40..600);
    }
    // a few documents that stay, so the keyspace is not empty
    for id in 10..10 + rng.gen_range(0..3u64) {
        events.push(Ev::Op { t, node: *inner.choose(rng).unwrap(), spec: op("put", id, "None") });
        t += rng.gen_range(20..300);
    }
    // the late node's own cycles fetch what there is ...
    t += rng.gen_range(3..6) * repair + 1_500;
    // ... and then an old message arrives: the OLDER of the two operations on each of the ids 0..k
    // is re-sent (the list of issued operations is ordered by keyspace, id, timestamp, so the two
    // operations of id i are entries 2i and 2i+1); the younger one is never seen again
    for i in 0..k as usize {
        events.push(Ev::Replay { t: t + rng.gen_range(0..400), from: *inner.choose(rng).unwrap(), nth: 2 * i, fresh: rng.gen_bool(0.5) });
    }
    t += 600;
    // everybody is told about everybody again
    let all: Vec<u8> = (1..=n).collect();
    for p in &inner {
        events.push(Ev::View { t, node: *p, members: all.clone() });
    }
    let _ = late;
    events.sort_by_key(|e| e.t());
    Scenario { cfg, events, closing_seed: rng.gen(), closing_parallel: false, settle_ms: 0, closing_mode: "background".to_string(), probe_direct: false, judge_departure: false, hours: false }
}

pub fn gen_cluster_scenario(rng: &mut rand::rngs::SmallRng, k: &GenKnobs) -> Scenario {
    let n = rng.gen_range(2..=k.max_nodes);
    let dcs = rng.gen_range(1..=3usize);
    let skewed = rng.gen_bool(0.4);
    // data centre names: plain, or with upper-case letters, blanks and dashes
    let fancy_names = rng.gen_bool(0.3);
    let dc_name = move |i: usize| if fancy_names { ["EU-West", "us East 1", "AP_South"][i % 3].to_string() } else { format!("dc{i}") };
    let nodes: Vec<NodeCfg> = (1..=n as u8)
        .map(|id| NodeCfg {
            id,
            dc: dc_name(rng.gen_range(0..dcs)),
            skew_ms: if skewed { rng.gen_range(-600_000..600_000) } else { 0 },
            storage_faults: if rng.gen_bool(0.15) { vec![(rng.gen_range(1..20), rng.gen_range(0..3))] } else { vec![] },
            storage_latency_max_ms: if rng.gen_bool(0.3) { rng.gen_range(1..30) } else { 0 },
            storage_scan_latency_max_ms: 0,
            storage_read_faults: if rng.gen_bool(0.25) { (0..rng.gen_range(1..=4)).map(|_| rng.gen_range(1..25)).collect() } else { vec![] },
            blunt_removal: false,
            removal_faults: vec![],
        })
        .collect();
    let explicit_only = rng.gen_bool(0.5);
    let mut jitter_sites = Vec::new();
    for s in ["poller.handle_removals", "poller.handle_modified", "group.get_or_create", "distributor.execute_batch"] {
        if rng.gen_bool(0.35) {
            jitter_sites.push((s.to_string(), rng.gen_range(1..400)));
        }
    }
    // emulates a task being descheduled between taking its timestamp and applying locally
    if rng.gen_bool(0.35) {
        jitter_sites.push(("store.before_local_apply".to_string(), rng.gen_range(1..40)));
    }
    let mut cfg = ClusterCfg {
        nodes,
        tick_ms: *[1u64, 2, 5].choose(rng).unwrap(),
        latency_ms: (1, *[2u64, 10, 40, 150].choose(rng).unwrap()),
        net_seed: rng.gen(),
        base_ms: rng.gen_range(1_000_000_000u64..60_000_000_000),
        repair_interval_ms: if explicit_only { 3_600_000 } else { rng.gen_range(1_000..6_000) },
        jitter_sites,
        hook_seed: rng.gen(),
        real_membership: false,
        prefill: None,
    };
    let ids: Vec<u8> = cfg.nodes.iter().map(|n| n.id).collect();
    let kss: Vec<String> = (0..rng.gen_range(1..=3)).map(|i| format!("ks{i}")).collect();
    let nids = rng.gen_range(1..=6u64);
    let span = rng.gen_range(1_500..k.span_ms);
    let nops = rng.gen_range(5..=k.max_ops);
    let levels = ["None", "One", "Two", "Three", "Quorum", "LocalQuorum", "All", "EachQuorum"];
    let mut events = Vec::new();
    for _ in 0..nops {
        // some operations are aligned with the 1 s batch tick of the distributor
        let t = if rng.gen_bool(0.25) { (rng.gen_range(0..span) / 1000) * 1000 + if rng.gen_bool(0.5) { 998 } else { 3 } } else { rng.gen_range(0..span) };
        let kind = ["put", "put", "put", "put_many", "del", "del", "del_many"].choose(rng).unwrap();
        let mut idv: Vec<u64> = Vec::new();
        let cnt = if kind.ends_with("many") { rng.gen_range(1..=4) } else { 1 };
        while idv.len() < cnt {
            let i = rng.gen_range(0..nids);
            if !idv.contains(&i) || idv.len() as u64 >= nids {
                idv.push(i);
            }
            if idv.len() as u64 >= nids {
                break;
            }
        }
        idv.dedup();
        let level = if rng.gen_bool(k.level_bias_none) { "None" } else { levels[rng.gen_range(0..levels.len())] };
        events.push(Ev::Op { t, node: *ids.choose(rng).unwrap(), spec: OpSpec { kind: kind.to_string(), ks: kss.choose(rng).unwrap().clone(), ids: idv, level: level.to_string(), dup: kind.ends_with("many") && kind.starts_with("put") && rng.gen_bool(0.15), empty: kind.starts_with("put") && rng.gen_bool(0.12) } });
    }
    // a key is deleted and written again within one batching interval of the distributor (1 s), by
    // the same or another node: the batched delete travels after the put was issued
    if rng.gen_bool(0.5) {
        for _ in 0..rng.gen_range(1..=3) {
            let t = rng.gen_range(0..span);
            let ks = kss.choose(rng).unwrap().clone();
            let id = rng.gen_range(0..nids);
            let a = *ids.choose(rng).unwrap();
            let b = *ids.choose(rng).unwrap();
            events.push(Ev::Op { t, node: a, spec: OpSpec { kind: "del".to_string(), ks: ks.clone(), ids: vec![id], level: "None".to_string(), dup: false, empty: false } });
            let level = if rng.gen_bool(0.5) { "None" } else { levels[rng.gen_range(0..levels.len())] };
            events.push(Ev::Op { t: t + rng.gen_range(3..900), node: b, spec: OpSpec { kind: "put".to_string(), ks, ids: vec![id], level: level.to_string(), dup: false, empty: false } });
        }
    }
    // fault kinds: a random subset per run (swarm)
    let f_hold = rng.gen_bool(0.5);
    let f_crash = rng.gen_bool(0.35) && n >= 2;
    let f_view = rng.gen_bool(0.4);
    let f_replay = rng.gen_bool(0.5);
    let f_jump = rng.gen_bool(0.25);
    if f_hold {
        for _ in 0..rng.gen_range(1..=3) {
            let a = *ids.choose(rng).unwrap();
            let mut b = *ids.choose(rng).unwrap();
            if a == b {
                b = ids[(ids.iter().position(|x| *x == a).unwrap() + 1) % ids.len()];
            }
            let t = rng.gen_range(0..span);
            events.push(Ev::Hold { t, a, b });
            events.push(Ev::Release { t: t + rng.gen_range(50..4_000), a, b });
        }
    }
    if f_crash {
        for _ in 0..rng.gen_range(1..=2) {
            let node = *ids.choose(rng).unwrap();
            let t = rng.gen_range(200..span.max(300));
            let back = t + rng.gen_range(100..5_000);
            events.push(Ev::Crash { t, node });
            // peers notice the death after a lag (or not at all before it is back)
            for p in &ids {
                if *p != node && rng.gen_bool(0.7) {
                    let others: Vec<u8> = ids.iter().copied().filter(|x| *x != node).collect();
                    events.push(Ev::View { t: t + rng.gen_range(0..1_500), node: *p, members: others });
                }
            }
            events.push(Ev::Restart { t: back, node });
            // "start-up window": the peers learn about the restart at once and write to the node
            // while it is still scanning its store (its RPC server answers, its store services
            // may not be there yet)
            let startup_window = rng.gen_bool(0.4);
            for p in &ids {
                if *p != node {
                    let lag = if startup_window { rng.gen_range(0..40) } else { rng.gen_range(50..1_500) };
                    if startup_window {
                        let others: Vec<u8> = ids.iter().copied().filter(|x| *x != node).collect();
                        events.push(Ev::View { t: t + rng.gen_range(0..100).min(back - t - 1), node: *p, members: others });
                    }
                    events.push(Ev::View { t: back + lag, node: *p, members: ids.clone() });
                }
            }
            if startup_window {
                if let Some(n) = cfg.nodes.iter_mut().find(|n| n.id == node) {
                    n.storage_scan_latency_max_ms = rng.gen_range(40..250);
                }
                let peers: Vec<u8> = ids.iter().copied().filter(|x| *x != node).collect();
                for _ in 0..rng.gen_range(2..=5) {
                    let kind = ["put", "put_many", "del"].choose(rng).unwrap();
                    let level = ["All", "Quorum", "EachQuorum", "One", "Two"].choose(rng).unwrap();
                    events.push(Ev::Op { t: back + rng.gen_range(10..700), node: *peers.choose(rng).unwrap(), spec: OpSpec { kind: kind.to_string(), ks: kss.choose(rng).unwrap().clone(), ids: vec![rng.gen_range(0..nids)], level: level.to_string(), dup: false, empty: false } });
                }
            }
        }
    }
    if f_view {
        for _ in 0..rng.gen_range(1..=3) {
            let node = *ids.choose(rng).unwrap();
            let t = rng.gen_range(0..span);
            let members: Vec<u8> = ids.iter().copied().filter(|x| *x == node || rng.gen_bool(0.5)).collect();
            events.push(Ev::View { t, node, members });
            events.push(Ev::View { t: t + rng.gen_range(200..6_000), node, members: ids.clone() });
        }
    }
    if f_replay {
        for _ in 0..rng.gen_range(1..=5) {
            events.push(Ev::Replay { t: rng.gen_range(300..span + 2_000), from: *ids.choose(rng).unwrap(), nth: rng.gen_range(0..64), fresh: false });
        }
    }
    if rng.gen_bool(0.2) {
        let node = *ids.choose(rng).unwrap();
        let mt = rng.gen_range(200..span.max(300));
        events.push(Ev::Move { t: mt, node });
        for p in &ids {
            if *p != node {
                events.push(Ev::View { t: mt + rng.gen_range(20..1_500), node: *p, members: ids.clone() });
            }
        }
    }
    if f_jump {
        for _ in 0..rng.gen_range(1..=2) {
            events.push(Ev::ClockJump { t: rng.gen_range(0..span), node: *ids.choose(rng).unwrap(), delta_ms: rng.gen_range(-300_000..300_000) });
        }
    }
    // one bulk call of more than a thousand documents (ids of their own), sometimes deleted again
    // in one call later on
    if rng.gen_bool(k.big_bulk) {
        let count = *[1_025u64, 1_100, 2_047, 2_049, 2_500, 3_000].choose(rng).unwrap() + if rng.gen_bool(0.3) { rng.gen_range(0..200) } else { 0 };
        let idv: Vec<u64> = (10_000..10_000 + count).collect();
        let ks = kss.choose(rng).unwrap().clone();
        let t = rng.gen_range(0..span);
        let level = levels[rng.gen_range(0..levels.len())];
        events.push(Ev::Op { t, node: *ids.choose(rng).unwrap(), spec: OpSpec { kind: "put_many".to_string(), ks: ks.clone(), ids: idv.clone(), level: level.to_string(), dup: false, empty: false } });
        if rng.gen_bool(0.4) {
            let level = levels[rng.gen_range(0..levels.len())];
            let keep = rng.gen_range(0..idv.len() / 3);
            events.push(Ev::Op { t: t + rng.gen_range(1_100..4_000), node: *ids.choose(rng).unwrap(), spec: OpSpec { kind: "del_many".to_string(), ks, ids: idv[keep..].to_vec(), level: level.to_string(), dup: false, empty: false } });
        }
    }
    // callers that give up: the future of an operation is dropped after a few ms, at whatever
    // await point it has reached (timestamp taken, local apply, replication under way)
    if rng.gen_bool(0.25) {
        let op_times: Vec<(u64, u8)> = events.iter().filter_map(|e| if let Ev::Op { t, node, .. } = e { Some((*t, *node)) } else { None }).collect();
        for (t, node) in op_times {
            if rng.gen_bool(0.2) {
                let after_ms = *[0u64, 1, 2, 3, 5, 8, 13, 30, 80, 250].choose(rng).unwrap();
                let polls = if rng.gen_bool(0.6) { Some(rng.gen_range(1..=14)) } else { None };
                events.push(Ev::CancelNext { t: t.saturating_sub(1), node, after_ms, polls });
            }
        }
    }
    // a peer is known under a second node id on the same address for a while (a process restarted
    // under a new id before its old identity was declared dead); the old identity then leaves
    if n >= 2 && rng.gen_bool(k.ghosts) {
        for _ in 0..rng.gen_range(1..=2) {
            let node = *ids.choose(rng).unwrap();
            let others: Vec<u8> = ids.iter().copied().filter(|x| *x != node).collect();
            let at = *others.choose(rng).unwrap();
            let g = 200 + at;
            let t = rng.gen_range(0..span);
            events.push(Ev::Ghosts { t, node, ghosts: vec![(g, at)] });
            events.push(Ev::Ghosts { t: t + rng.gen_range(50..5_000), node, ghosts: vec![] });
        }
    }
    events.sort_by_key(|e| e.t());
    let closing_mode = if !explicit_only && rng.gen_bool(0.5) { "background" } else { "explicit" };
    Scenario { cfg, events, closing_seed: rng.gen(), closing_parallel: rng.gen_bool(0.4), settle_ms: if rng.gen_bool(0.5) { 0 } else { rng.gen_range(0..2_500) }, closing_mode: closing_mode.to_string(), probe_direct: false, judge_departure: false, hours: false }
}

/// "Burst" family: a node whose direct replication reaches nobody (its view is empty) issues
/// bursts of back-to-back writes on a slow store while its peers' fast pollers pull from it, so
/// state snapshots, change timestamps and tracker updates race with the writes; convergence is
/// then left to the nodes' own replication cycles.
pub fn gen_burst_scenario(rng: &mut rand::rngs::SmallRng) -> Scenario {
    let n = rng.gen_range(2..=3usize);
    let nodes: Vec<NodeCfg> = (1..=n as u8)
        .map(|id| NodeCfg { id, dc: "dc0".into(), skew_ms: if rng.gen_bool(0.3) { rng.gen_range(-60_000..60_000) } else { 0 }, storage_faults: vec![], storage_latency_max_ms: rng.gen_range(3..40), storage_scan_latency_max_ms: 0, storage_read_faults: if rng.gen_bool(0.4) { (0..rng.gen_range(1..=5)).map(|_| rng.gen_range(1..30)).collect() } else { vec![] }, blunt_removal: false, removal_faults: vec![] })
        .collect();
    let cfg = ClusterCfg {
        nodes,
        tick_ms: 1,
        latency_ms: (1, *[2u64, 10, 30].choose(rng).unwrap()),
        net_seed: rng.gen(),
        base_ms: rng.gen_range(1_000_000_000u64..60_000_000_000),
        repair_interval_ms: rng.gen_range(150..1_200),
        jitter_sites: if rng.gen_bool(0.3) { vec![("poller.handle_modified".to_string(), rng.gen_range(1..60))] } else { vec![] },
        hook_seed: rng.gen(),
        real_membership: false,
        prefill: None,
    };
    let ids: Vec<u8> = cfg.nodes.iter().map(|n| n.id).collect();
    let writers: Vec<u8> = ids.iter().copied().filter(|_| rng.gen_bool(0.6)).collect();
    let writers = if writers.is_empty() { vec![ids[0]] } else { writers };
    let mut events = Vec::new();
    // writers see nobody (their direct messages and batches reach no one); everyone else sees all
    for w in &writers {
        events.push(Ev::View { t: 0, node: *w, members: vec![] });
    }
    let kss: Vec<String> = (0..rng.gen_range(1..=2)).map(|i| format!("ks{i}")).collect();
    let nids = rng.gen_range(2..=6u64);
    let mut t = rng.gen_range(600..1_500);
    for _ in 0..rng.gen_range(2..=6) {
        let w = *writers.choose(rng).unwrap();
        let ks = kss.choose(rng).unwrap().clone();
        for _ in 0..rng.gen_range(2..=6) {
            let kind = match rng.gen_range(0..20) {
                0..=12 => "put",
                13..=16 => "del",
                17..=18 => "put_many",
                _ => "del_many",
            };
            let mut idv: Vec<u64> = (0..if kind.ends_with("many") { rng.gen_range(2..=3) } else { 1 }).map(|_| rng.gen_range(0..nids)).collect();
            idv.sort();
            idv.dedup();
            events.push(Ev::Op { t, node: w, spec: OpSpec { kind: kind.to_string(), ks: ks.clone(), ids: idv, level: "None".to_string(), dup: false, empty: kind.starts_with("put") && rng.gen_bool(0.1) } });
            t += rng.gen_range(0..4);
        }
        t += rng.gen_range(100..2_500);
    }
    // sometimes a writer comes back on another address in between; its peers learn the new
    // address in one membership snapshot (left + joined in a single change)
    if rng.gen_bool(0.4) {
        let w = *writers.choose(rng).unwrap();
        let mt = rng.gen_range(300..t.max(400));
        events.push(Ev::Move { t: mt, node: w });
        for p in &ids {
            if *p != w && !writers.contains(p) {
                events.push(Ev::View { t: mt + rng.gen_range(20..600), node: *p, members: ids.clone() });
            }
        }
    }
    // a writer's last word on a keyspace is a bulk put that its store applies part-way: the
    // documents that were written must still travel
    if rng.gen_bool(0.35) {
        let w = *writers.choose(rng).unwrap();
        let ks = kss.choose(rng).unwrap().clone();
        // (every other operation is earlier: nothing touches the keyspace on this writer afterwards)
        let tt = t + rng.gen_range(1_500..4_000);
        let mut idv: Vec<u64> = (0..nids.min(3)).collect();
        idv.truncate(rng.gen_range(2..=3).min(idv.len()));
        if idv.len() >= 2 {
            events.push(Ev::PartialBulk { t: tt, node: w, k: rng.gen_range(1..idv.len() as u32) });
            events.push(Ev::Op { t: tt + 2, node: w, spec: OpSpec { kind: "put_many".to_string(), ks, ids: idv, level: "None".to_string(), dup: false, empty: false } });
        }
    }
    let mut tail_same_skew: Option<(u8, u8)> = None;
    // a node's last word on a keyspace is the delete of a document it never held itself: the
    // document is written a moment earlier on a peer that has been in sync with the deleter all
    // along, the link between the two is held for a while, and the deleter tells nobody - only
    // anti-entropy can carry the delete
    if rng.gen_bool(0.4) && ids.len() >= 2 {
        let non_writers: Vec<u8> = ids.iter().copied().filter(|x| !writers.contains(x)).collect();
        if let Some(putter) = non_writers.choose(rng).copied() {
            let others: Vec<u8> = ids.iter().copied().filter(|x| *x != putter).collect();
            let deleter = *others.choose(rng).unwrap();
            let ks = kss.choose(rng).unwrap().clone();
            let tt = t + rng.gen_range(4_500..7_000);
            let fresh = nids + 7;
            events.push(Ev::Hold { t: tt - 400, a: putter, b: deleter });
            events.push(Ev::View { t: tt - 300, node: deleter, members: vec![] });
            events.push(Ev::Op { t: tt - rng.gen_range(5..100), node: putter, spec: OpSpec { kind: "put".to_string(), ks: ks.clone(), ids: vec![fresh], level: "None".to_string(), dup: false, empty: false } });
            events.push(Ev::Op { t: tt, node: deleter, spec: OpSpec { kind: if rng.gen_bool(0.6) { "del" } else { "del_many" }.to_string(), ks, ids: vec![fresh], level: "None".to_string(), dup: false, empty: false } });
            events.push(Ev::Release { t: tt + rng.gen_range(2_500..4_000), a: putter, b: deleter });
            // the delete is meant to be the newer of the two: same wall-clock offset on both nodes
            tail_same_skew = Some((putter, deleter));
        }
    }
    // storage trouble while the data moves by anti-entropy only: a writer's bulk write applied
    // part-way, a puller's store failing in the middle of applying a repair exchange
    let mut cfg = cfg;
    if let Some((p, d)) = tail_same_skew {
        let sk = cfg.nodes.iter().find(|n| n.id == p).map(|n| n.skew_ms).unwrap_or(0);
        if let Some(n) = cfg.nodes.iter_mut().find(|n| n.id == d) {
            n.skew_ms = sk;
        }
    }
    if rng.gen_bool(0.5) {
        for n in cfg.nodes.iter_mut() {
            if rng.gen_bool(0.6) {
                for _ in 0..rng.gen_range(1..=3) {
                    n.storage_faults.push((rng.gen_range(1..30), rng.gen_range(0..3)));
                }
            }
        }
    }
    events.sort_by_key(|e| e.t());
    Scenario { cfg, events, closing_seed: rng.gen(), closing_parallel: false, settle_ms: 0, closing_mode: "background".to_string(), probe_direct: false, judge_departure: false, hours: false }
}

/// "Real membership" family: every node is built with the public API alone
/// (`DatacakeNodeBuilder::connect` + `EventuallyConsistentStoreExtension`), membership comes from
/// the gossip layer running over the simulated network, so link holds long enough for the failure
/// detector, crashes, restarts and address moves reach the store as the membership changes a real
/// deployment would see.
pub fn gen_real_scenario(rng: &mut rand::rngs::SmallRng) -> Scenario {
    let n = rng.gen_range(2..=4usize);
    let dcs = rng.gen_range(1..=2usize);
    let skewed = rng.gen_bool(0.3);
    let nodes: Vec<NodeCfg> = (1..=n as u8)
        .map(|id| NodeCfg {
            id,
            dc: format!("dc{}", rng.gen_range(0..dcs)),
            skew_ms: if skewed { rng.gen_range(-120_000..120_000) } else { 0 },
            storage_faults: if rng.gen_bool(0.1) { vec![(rng.gen_range(1..20), rng.gen_range(0..3))] } else { vec![] },
            storage_latency_max_ms: if rng.gen_bool(0.4) { rng.gen_range(1..40) } else { 0 },
            storage_scan_latency_max_ms: if rng.gen_bool(0.5) { rng.gen_range(5..150) } else { 0 },
            storage_read_faults: if rng.gen_bool(0.25) { (0..rng.gen_range(1..=4)).map(|_| rng.gen_range(1..25)).collect() } else { vec![] },
            blunt_removal: false,
            removal_faults: vec![],
        })
        .collect();
    let mut jitter_sites = Vec::new();
    for s in ["poller.handle_removals", "poller.handle_modified", "group.get_or_create", "distributor.execute_batch", "store.before_local_apply"] {
        if rng.gen_bool(0.25) {
            jitter_sites.push((s.to_string(), rng.gen_range(1..200)));
        }
    }
    let cfg = ClusterCfg {
        nodes,
        tick_ms: *[1u64, 2].choose(rng).unwrap(),
        latency_ms: (1, *[2u64, 10, 40].choose(rng).unwrap()),
        net_seed: rng.gen(),
        base_ms: rng.gen_range(1_000_000_000u64..60_000_000_000),
        repair_interval_ms: 1_000,
        jitter_sites,
        hook_seed: rng.gen(),
        real_membership: true,
        prefill: None,
    };
    let ids: Vec<u8> = cfg.nodes.iter().map(|n| n.id).collect();
    let kss: Vec<String> = (0..rng.gen_range(1..=2)).map(|i| format!("ks{i}")).collect();
    let nids = rng.gen_range(1..=5u64);
    let span = rng.gen_range(8_000..90_000u64);
    let levels = ["None", "One", "Two", "Quorum", "LocalQuorum", "All", "EachQuorum"];
    let mut events = Vec::new();
    for _ in 0..rng.gen_range(4..=24) {
        let t = rng.gen_range(0..span);
        let kind = ["put", "put", "put", "put_many", "del", "del", "del_many"].choose(rng).unwrap();
        let cnt = if kind.ends_with("many") { rng.gen_range(1..=3) } else { 1 };
        let mut idv: Vec<u64> = (0..cnt).map(|_| rng.gen_range(0..nids)).collect();
        idv.sort();
        idv.dedup();
        let level = if rng.gen_bool(0.4) { "None" } else { levels[rng.gen_range(0..levels.len())] };
        events.push(Ev::Op { t, node: *ids.choose(rng).unwrap(), spec: OpSpec { kind: kind.to_string(), ks: kss.choose(rng).unwrap().clone(), ids: idv, level: level.to_string(), dup: kind.ends_with("many") && kind.starts_with("put") && rng.gen_bool(0.15), empty: kind.starts_with("put") && rng.gen_bool(0.12) } });
    }
    if rng.gen_bool(0.6) {
        for _ in 0..rng.gen_range(1..=2) {
            let a = *ids.choose(rng).unwrap();
            let mut b = *ids.choose(rng).unwrap();
            if a == b {
                b = ids[(ids.iter().position(|x| *x == a).unwrap() + 1) % ids.len()];
            }
            let t = rng.gen_range(0..span);
            // short (nothing notices) or long enough for the failure detector to declare the peer dead
            let d = if rng.gen_bool(0.5) { rng.gen_range(300..5_000) } else { rng.gen_range(25_000..70_000) };
            events.push(Ev::Hold { t, a, b });
            events.push(Ev::Release { t: t + d, a, b });
        }
    }
    let mut stays_down = false;
    if rng.gen_bool(0.5) {
        let node = *ids.choose(rng).unwrap();
        let t = rng.gen_range(500..span);
        let back = t + if rng.gen_bool(0.5) { rng.gen_range(200..5_000) } else { rng.gen_range(20_000..60_000) };
        events.push(Ev::Crash { t, node });
        stays_down = rng.gen_bool(0.3);
        if stays_down {
            // the node is gone until the faults stop (it is judged as a departure, then started
            // again); half of the time every node but one goes, so that a node is left on its own
            if rng.gen_bool(0.5) {
                let keep = *ids.iter().filter(|x| **x != node).collect::<Vec<_>>().choose(rng).unwrap();
                for other in ids.iter().filter(|x| **x != node && *x != keep) {
                    events.push(Ev::Crash { t: rng.gen_range(500..span), node: *other });
                }
            }
        } else if rng.gen_bool(0.6) {
            // comes back under a new address: a new identity for the gossip layer
            events.push(Ev::Move { t: back, node });
        } else {
            events.push(Ev::Restart { t: back, node });
        }
        // peers that re-dial while the node is starting up: earlier mutations re-sent over fresh
        // connections in the first moments after the (re)start
        if !stays_down && rng.gen_bool(0.6) {
            for _ in 0..rng.gen_range(3..=14) {
                let from = *ids.choose(rng).unwrap();
                if from != node {
                    events.push(Ev::Replay { t: back + rng.gen_range(0..700), from, nth: rng.gen_range(0..64), fresh: true });
                }
            }
        }
    }
    if rng.gen_bool(0.3) {
        for _ in 0..rng.gen_range(1..=3) {
            events.push(Ev::Replay { t: rng.gen_range(300..span + 2_000), from: *ids.choose(rng).unwrap(), nth: rng.gen_range(0..64), fresh: false });
        }
    }
    if rng.gen_bool(0.2) {
        events.push(Ev::ClockJump { t: rng.gen_range(0..span), node: *ids.choose(rng).unwrap(), delta_ms: rng.gen_range(-120_000..120_000) });
    }
    events.sort_by_key(|e| e.t());
    Scenario { cfg, events, closing_seed: rng.gen(), closing_parallel: false, settle_ms: 0, closing_mode: "background".to_string(), probe_direct: false, judge_departure: stays_down, hours: false }
}

/// "Big join": one node holds more documents in one keyspace than a single fetch carries
/// (50 000); the others start empty and repair from it.
pub fn gen_big_join_scenario(rng: &mut rand::rngs::SmallRng) -> Scenario {
    let nodes: Vec<NodeCfg> = (1..=2u8).map(|id| NodeCfg { id, dc: "dc0".into(), skew_ms: 0, storage_faults: vec![], storage_latency_max_ms: 0, storage_scan_latency_max_ms: 0, storage_read_faults: vec![], blunt_removal: false, removal_faults: vec![] }).collect();
    let count = 50_000 + rng.gen_range(1..=40u64);
    let cfg = ClusterCfg {
        nodes,
        tick_ms: 5,
        latency_ms: (1, 2),
        net_seed: rng.gen(),
        base_ms: rng.gen_range(1_000_000_000u64..60_000_000_000),
        repair_interval_ms: 800,
        jitter_sites: vec![],
        hook_seed: rng.gen(),
        real_membership: false,
        prefill: Some((1, "big".to_string(), count)),
    };
    // a little traffic so that the case is not empty
    let events = vec![Ev::Op { t: 500, node: 2, spec: OpSpec { kind: "put".to_string(), ks: "small".to_string(), ids: vec![1], level: "None".to_string(), dup: false, empty: false } }];
    Scenario { cfg, events, closing_seed: rng.gen(), closing_parallel: false, settle_ms: 0, closing_mode: "background".to_string(), probe_direct: false, judge_departure: false, hours: false }
}

/// "Hours" family (C08's cluster clause on the real store): a cluster that keeps running for two to
/// four hours, so that every node's own hourly purge pass removes tombstones while writes, deletes,
/// anti-entropy, short outages and restarts go on. Operations come in bursts of a few minutes with
/// quiet stretches in between; all deliveries are timely (see `validate_timely`).
pub fn gen_hours_scenario(rng: &mut rand::rngs::SmallRng) -> Scenario {
    let n = rng.gen_range(2..=4usize);
    let dcs = rng.gen_range(1..=2usize);
    let skewed = rng.gen_bool(0.5);
    let nodes: Vec<NodeCfg> = (1..=n as u8)
        .map(|id| NodeCfg {
            id,
            dc: format!("dc{}", rng.gen_range(0..dcs)),
            skew_ms: if skewed { rng.gen_range(-290_000..290_000) } else { 0 },
            storage_faults: if rng.gen_bool(0.15) { vec![(rng.gen_range(1..40), rng.gen_range(0..3))] } else { vec![] },
            storage_latency_max_ms: if rng.gen_bool(0.4) { rng.gen_range(50..400) } else { 0 },
            storage_scan_latency_max_ms: 0,
            storage_read_faults: vec![],
            blunt_removal: rng.gen_bool(0.7),
            // the first (or the first two) purge passes that have something to remove fail at the store
            removal_faults: if rng.gen_bool(0.35) { if rng.gen_bool(0.5) { vec![1] } else { vec![1, 2] } } else { vec![] },
        })
        .collect();
    let tick = *[50u64, 100].choose(rng).unwrap();
    let cfg = ClusterCfg {
        nodes,
        tick_ms: tick,
        latency_ms: (tick, tick * rng.gen_range(1..=3)),
        net_seed: rng.gen(),
        base_ms: rng.gen_range(1_000_000_000u64..60_000_000_000),
        repair_interval_ms: rng.gen_range(5_000..=10_000),
        jitter_sites: vec![],
        hook_seed: rng.gen(),
        real_membership: false,
        prefill: None,
    };
    let ids: Vec<u8> = cfg.nodes.iter().map(|n| n.id).collect();
    let kss: Vec<String> = (0..rng.gen_range(1..=2)).map(|i| format!("ks{i}")).collect();
    // enough ids that some tombstones of one burst are left alone by the next ones
    let nids = rng.gen_range(4..=14u64);
    let levels = ["None", "None", "One", "Quorum", "All"];
    let mut events = Vec::new();
    let bursts = if rng.gen_bool(0.7) { 3u64 } else { 2 };
    // ids deleted so far (keyspace, id): later bursts write some of them again
    let mut deleted: Vec<(String, u64)> = Vec::new();
    let mut start = rng.gen_range(0..120_000u64);
    let mut last_end = 0u64;
    for b in 0..bursts {
        // A tombstone is purged once BOTH sources of the set (direct replication and repair) have
        // seen a stamp of the deleting node that is an hour younger. So every burst has a "dark"
        // half, in which seeded nodes believe they have no peers (their writes travel by
        // anti-entropy alone), and a "bright" half with complete views (direct replication).
        let dark_len = rng.gen_range(15_000..120_000u64);
        let bright_len = rng.gen_range(15_000..120_000u64);
        let len = dark_len + 5_000 + bright_len;
        let dark: Vec<u8> = ids.iter().copied().filter(|_| rng.gen_bool(0.9)).collect();
        for d in &dark {
            events.push(Ev::View { t: start, node: *d, members: vec![] });
            events.push(Ev::View { t: start + dark_len + rng.gen_range(0..4_000), node: *d, members: ids.clone() });
        }
        for half in 0..2 {
            let (h0, hl) = if half == 0 { (start + 50, dark_len - 100) } else { (start + dark_len + 5_000, bright_len) };
            let nops = rng.gen_range(2..=8);
            let mut writers: Vec<u8> = ids.clone();
            writers.shuffle(rng);
            for i in 0..nops.max(if rng.gen_bool(0.9) { writers.len() } else { 0 }) {
                // every origin writes in every half, most of the time
                let node = if i < writers.len() { writers[i] } else { *ids.choose(rng).unwrap() };
                let kind = if b == 0 && half == 0 { ["put", "put", "put_many", "del"].choose(rng).unwrap() } else { ["put", "put_many", "del", "del", "del_many"].choose(rng).unwrap() };
                let cnt = if kind.ends_with("many") { rng.gen_range(1..=3) } else { 1 };
                let mut idv: Vec<u64> = (0..cnt).map(|_| rng.gen_range(0..nids)).collect();
                idv.sort();
                idv.dedup();
                let level = if half == 0 && dark.contains(&node) { "None" } else { *levels.choose(rng).unwrap() };
                let ks = kss.choose(rng).unwrap().clone();
                if kind.starts_with("del") {
                    for i in &idv {
                        deleted.push((ks.clone(), *i));
                    }
                }
                events.push(Ev::Op { t: h0 + rng.gen_range(0..hl), node, spec: OpSpec { kind: kind.to_string(), ks, ids: idv, level: level.to_string(), dup: false, empty: false } });
            }
            // documents deleted in an earlier burst (their tombstones may have been purged by now) are written again
            if b >= 1 && half == 1 && !deleted.is_empty() && rng.gen_bool(0.6) {
                for _ in 0..rng.gen_range(1..=4) {
                    let (ks, id) = deleted.choose(rng).unwrap().clone();
                    events.push(Ev::Op { t: h0 + rng.gen_range(0..hl), node: *ids.choose(rng).unwrap(), spec: OpSpec { kind: "put".to_string(), ks, ids: vec![id], level: levels.choose(rng).unwrap().to_string(), dup: false, empty: false } });
                }
            }
        }
        // faults inside the burst (or shortly after it): a held link, an outage with a restart
        let mut fault_end = start + len;
        if rng.gen_bool(0.5) && n >= 2 {
            let a = *ids.choose(rng).unwrap();
            let b2 = *ids.iter().filter(|x| **x != a).collect::<Vec<_>>().choose(rng).unwrap();
            let t = start + rng.gen_range(0..len);
            let d = rng.gen_range(500..300_000);
            events.push(Ev::Hold { t, a, b: *b2 });
            events.push(Ev::Release { t: t + d, a, b: *b2 });
            fault_end = fault_end.max(t + d);
        }
        if rng.gen_bool(0.3) {
            let node = *ids.choose(rng).unwrap();
            // during the burst, or some minutes after it (also: right around the hour, when the purge pass runs)
            let t = start + len + rng.gen_range(0..600_000);
            let d = rng.gen_range(200..300_000);
            events.push(Ev::Crash { t, node });
            events.push(Ev::Restart { t: t + d, node });
            let others: Vec<u8> = ids.iter().copied().filter(|x| *x != node).collect();
            for p in &others {
                // peers hear of the death after a while (or not before it is back), and of the return promptly
                if rng.gen_bool(0.7) {
                    events.push(Ev::View { t: t + rng.gen_range(0..d), node: *p, members: others.clone() });
                } else {
                    events.push(Ev::View { t: t + d + 1, node: *p, members: others.clone() });
                }
                events.push(Ev::View { t: t + d + rng.gen_range(50..3_000), node: *p, members: ids.clone() });
            }
            fault_end = fault_end.max(t + d + 3_000);
        }
        if rng.gen_bool(0.25) {
            let t = start + rng.gen_range(0..len);
            events.push(Ev::ClockJump { t, node: *ids.choose(rng).unwrap(), delta_ms: rng.gen_range(-50_000..50_000) });
        }
        // a quiet point before the next burst
        let quiet = fault_end + rng.gen_range(8 * 60_000 + 1_000..20 * 60_000);
        events.push(Ev::Checkpoint { t: quiet });
        last_end = fault_end;
        // the next burst starts 61-80 minutes after this one: its stamps make this one's tombstones purgeable
        start = (start + rng.gen_range(61 * 60_000..80 * 60_000)).max(quiet + 1_000);
    }
    // writes that arrive right when a node's hourly purge pass runs (a node that has not been
    // restarted runs it k hours after its start): ids deleted earlier are written again at the
    // purging node, or at another node with a level that replicates at once
    let mut last_busy = last_end.max(start.saturating_sub(61 * 60_000));
    for k in 1..=3u64 {
        let at = k * 3_600_000 - (BOOT_MS + 100);
        if at > last_busy + 50 * 60_000 || !rng.gen_bool(0.6) {
            continue;
        }
        let p = *ids.choose(rng).unwrap();
        for _ in 0..rng.gen_range(2..=5) {
            let here = rng.gen_bool(0.7);
            let node = if here { p } else { *ids.choose(rng).unwrap() };
            let kind = ["put", "put", "put_many", "del"].choose(rng).unwrap();
            let cnt = if kind.ends_with("many") { rng.gen_range(1..=3) } else { 1 };
            let mut idv: Vec<u64> = (0..cnt).map(|_| rng.gen_range(0..nids)).collect();
            idv.sort();
            idv.dedup();
            let t = (at + rng.gen_range(0..2_800)).saturating_sub(300);
            events.push(Ev::Op { t, node, spec: OpSpec { kind: kind.to_string(), ks: kss.choose(rng).unwrap().clone(), ids: idv, level: if here { "None" } else { "All" }.to_string(), dup: false, empty: false } });
            last_busy = last_busy.max(t);
        }
    }
    // quiet points keep their distance from everything else (see `validate_timely`)
    let busy: Vec<u64> = events.iter().filter(|e| !matches!(e, Ev::Checkpoint { .. })).map(|e| e.t()).collect();
    events.retain(|e| match e {
        Ev::Checkpoint { t } => !busy.iter().any(|b| *b <= *t && *b + 8 * 60_000 + 500 > *t),
        _ => true,
    });
    // a last quiet stretch of more than an hour: every node's purge pass has run once more after
    // everything had arrived
    events.push(Ev::Checkpoint { t: last_busy + rng.gen_range(62 * 60_000..70 * 60_000) });
    events.sort_by_key(|e| e.t());
    Scenario { cfg, events, closing_seed: rng.gen(), closing_parallel: false, settle_ms: 0, closing_mode: "background".to_string(), probe_direct: false, judge_departure: false, hours: true }
}

pub fn cluster_components() -> Vec<(&'static str, &'static str)> {
    vec![
        ("datacake-eventual-consistency: store handle put/put_many/del/del_many, keyspace actors, KeyspaceGroup, distributor (1 s batches), poller + purge task, ConsistencyService/ReplicationService and their clients, membership consumer", "real"),
        ("datacake-node: Clock actor, RpcNetwork, DCAwareSelector + selector actor, watch_membership_changes, DatacakeHandle", "real"),
        ("datacake-rpc: rkyv framing + CRC, RpcClient, Server dispatch, hyper HTTP/2 client and server connections (crate feature `simulation`)", "real"),
        ("datacake-crdt OrSWotSet / HLCTimestamp", "real"),
        ("TCP/IP network", "simulated: turmoil 0.4.0 (vendored, 3-part patch), seeded latencies, hold/release, crash/bounce"),
        ("chitchat gossip + failure detector, DatacakeNode builder", "stub in most scenario families: harness-supplied membership snapshots, node parts wired by verif::create_store / verif::new_handle. Real in the real-membership family (1 case in 8 of C01; arms of C02, C16, C18): DatacakeNodeBuilder::connect + EventuallyConsistentStoreExtension (public API only), ChitchatNode, ChitchatTransport/ChitchatService, the vendored gossip crate with virtual time and seeded randomness"),
        ("Storage", "SimStorage (harness) outside the hosts: survives crashes, fault plan, virtual latency"),
        ("wall clock", "injected per node: simulated time + skew + jumps (hook H1)"),
        ("tokio", "real, one paused current_thread runtime per host"),
    ]
}

pub fn shrink_cluster(sc: &Value) -> Vec<Value> {
    let mut c = generic_shrink(sc);
    // simplify knobs
    if sc["closing_parallel"].as_bool() == Some(true) {
        let mut v = sc.clone();
        v["closing_parallel"] = serde_json::json!(false);
        c.push(v);
    }
    if sc["cfg"]["jitter_sites"].as_array().map(|a| !a.is_empty()).unwrap_or(false) {
        let mut v = sc.clone();
        v["cfg"]["jitter_sites"] = serde_json::json!([]);
        c.push(v);
    }
    if let Some(nodes) = sc["cfg"]["nodes"].as_array() {
        let mut v = sc.clone();
        let mut changed = false;
        for (i, n) in nodes.iter().enumerate() {
            if n["skew_ms"].as_i64().unwrap_or(0) != 0 || n["storage_latency_max_ms"].as_u64().unwrap_or(0) != 0 || n["storage_faults"].as_array().map(|a| !a.is_empty()).unwrap_or(false) || n["storage_read_faults"].as_array().map(|a| !a.is_empty()).unwrap_or(false) {
                v["cfg"]["nodes"][i]["skew_ms"] = serde_json::json!(0);
                v["cfg"]["nodes"][i]["storage_latency_max_ms"] = serde_json::json!(0);
                v["cfg"]["nodes"][i]["storage_faults"] = serde_json::json!([]);
                v["cfg"]["nodes"][i]["storage_read_faults"] = serde_json::json!([]);
                changed = true;
            }
        }
        if changed {
            c.push(v);
        }
        // drop the last node if no event mentions it
        if nodes.len() > 2 {
            let last = nodes[nodes.len() - 1]["id"].as_u64().unwrap_or(0);
            let mentioned = serde_json::to_string(&sc["events"]).unwrap_or_default();
            let uses = sc["events"].as_array().map(|evs| evs.iter().any(|e| {
                e["node"].as_u64() == Some(last) || e["a"].as_u64() == Some(last) || e["b"].as_u64() == Some(last) || e["from"].as_u64() == Some(last)
                    || e["members"].as_array().map(|m| m.iter().any(|x| x.as_u64() == Some(last))).unwrap_or(false)
            })).unwrap_or(true);
            let _ = mentioned;
            if !uses {
                let mut v = sc.clone();
                v["cfg"]["nodes"].as_array_mut().unwrap().pop();
                c.push(v);
            }
        }
    }
    // lower consistency levels to None, bulk to single
    if let Some(evs) = sc["events"].as_array() {
        for (i, e) in evs.iter().enumerate() {
            if e["ev"] == "op" {
                if e["spec"]["level"] != "None" {
                    let mut v = sc.clone();
                    v["events"][i]["spec"]["level"] = serde_json::json!("None");
                    c.push(v);
                }
                if e["spec"]["ids"].as_array().map(|a| a.len() > 1).unwrap_or(false) {
                    let mut v = sc.clone();
                    let first = e["spec"]["ids"][0].clone();
                    v["events"][i]["spec"]["ids"] = serde_json::json!([first]);
                    c.push(v);
                }
            }
        }
    }
    if sc["settle_ms"].as_u64().unwrap_or(0) > 0 {
        let mut v = sc.clone();
        v["settle_ms"] = serde_json::json!(0);
        c.push(v);
    }
    c
}

impl Check for C01 {
    fn id(&self) -> &'static str {
        "C01"
    }
    fn title(&self) -> &'static str {
        "Cluster converges: every node ends with the same last-writer-wins documents"
    }
    fn engine(&self) -> &'static str {
        "E2 cluster engine: 2-5 complete nodes as turmoil hosts (real store, RPC stack, clock, selector, membership watcher) over simulated TCP; SimStorage outside the hosts; harness-owned membership views"
    }
    fn rule(&self) -> &'static str {
        "Cases: 2-5 nodes in 1-3 data centres, optional wall-clock skew up to +-10 min, 5-40 put/put_many/del/del_many at seeded nodes and times (a quarter aligned with the distributor's 1 s batch tick) with all eight consistency levels on 1-3 keyspaces and 1-6 ids (so writers collide); a seeded subset of fault kinds per run: link hold/release, node crash/restart with lagging or missing death/return notices at peers, a node coming back on another IP address (peers learn it as left+joined in one membership change), partial membership views (peers that get no batches), replayed replication messages (duplicate, late, reordered direct messages), clock jumps, storage failures and latency, cooperative delays at the two halves of a repair / keyspace creation / batch execution / between timestamping and local apply; background poller on (1-6 s) or off. Then quiescence is constructed (links released, nodes restarted and re-announced, views completed, all calls returned) and every node runs the real repair path (poll_keyspace -> get_state -> Diff -> MultiDel/fetch_docs+MultiSet) against every other node, in seeded order, optionally two at a time, each until the tracker reports nothing unsynced. Oracle: every node's store holds exactly the last-writer-wins live documents (id, bytes, timestamp) computed from the operations captured at their issuers' stores. Non-trivial = two origins wrote one (keyspace, id) AND at least one fault fired. Distinct = hash of all nodes' ordered storage-call sequences. Real-membership family (1 case in 8): 2-4 nodes built with DatacakeNodeBuilder::connect + EventuallyConsistentStoreExtension alone; membership is whatever the gossip layer (vendored, virtual time, seeded) reports over the simulated network; 4-24 operations over 8-90 s; link holds either short or 25-70 s (long enough for the failure detector to declare the peer dead and the store to drop and re-create its pollers), crash + restart on the same or another address (three crashes in ten last until the faults stop, half of those taking every node but one; the departure is judged first, then the nodes come back), earlier mutations re-sent over fresh connections in the first 700 ms after a (re)start, slow start-up scans, clock jumps. After the faults the harness waits (bounded, 240 simulated s) until every node's membership layer reports every running node, then gives the nodes' own replication cycles 14 simulated s; if the layer does not re-admit somebody the exchanges are driven explicitly instead."
    }
    fn assumptions(&self) -> Vec<String> {
        vec![
            "all operations lie within one forgiveness period (history <= 20 simulated minutes, skew <= 15 min; re-validated)".into(),
            "recoverable network faults only (hold/release, crash/restart, membership flaps): a black-holed established TCP connection never times out in turmoil and datacake's clients have no request timeout".into(),
            "stub-membership families: a restarted node is re-announced to its peers (left, then joined) before the closing phase, as chitchat eventually would; the simulation transport (datacake-rpc feature `simulation`) never re-dials a dead connection by itself".into(),
            "real-membership family: the gossip crate is the vendored datacake-chitchat-fork 0.5.1 with replay patches only (virtual Instant, seeded generators, canonical/seeded set order); turmoil's accept loop was patched to drain stale SYNs (upstream handled one queued SYN per wake-up, so a listener behind a released link never caught up - that, not datacake, produced 'Failed to connect within deadline' forever)".into(),
            "storage faults are contract-conforming (a failing call reports what it applied)".into(),
        ]
    }
    fn components(&self) -> Vec<(&'static str, &'static str)> {
        cluster_components()
    }
    fn budget(&self, tier: Tier) -> Budget {
        match tier {
            Tier::Quick => Budget { wall_secs: 75, max_cases: 4_000, checkpoint_every: 1, workers: 16 },
            Tier::Thorough => Budget { wall_secs: 900, max_cases: 100_000, checkpoint_every: 1, workers: 16 },
        }
    }
    fn generate(&self, seed: u64, idx: u64, tier: Tier) -> Value {
        // one "big join" early in every run (and one in about 1500 cases after that)
        if idx == 9 || mix(0xB16, idx) % 1_499 == 0 {
            let mut rng = rng_from(case_seed(seed, idx));
            return serde_json::to_value(gen_big_join_scenario(&mut rng)).unwrap();
        }
        // single-node arm: peers skip a keyspace whose advertised change timestamp they have
        // already synced, so every request that changes what a keyspace holds must move it
        if mix(0xFA41, idx) % 8 == 1 {
            let sc = crate::e1::c02::C02.generate(seed ^ 0xAD7, 1_000_000 + idx * 47 + 1, tier);
            if sc.get("cluster").is_none() {
                return serde_json::json!({ "advert": sc });
            }
        }
        let mut rng = rng_from(case_seed(seed, idx));
        // scenario families, spread over all workers (worker i takes indexes i, i+16, ...)
        if mix(0x1A7E, idx) % 13 == 0 {
            return serde_json::to_value(gen_late_arrival_scenario(&mut rng)).unwrap();
        }
        match mix(0xFA41, idx) % 8 {
            3 | 7 => return serde_json::to_value(gen_burst_scenario(&mut rng)).unwrap(),
            5 => return serde_json::to_value(gen_real_scenario(&mut rng)).unwrap(),
            _ => {},
        }
        // thorough tier: a third of these cases are deeper (up to 8 nodes, 90 operations, 60 s)
        let k = if tier == Tier::Thorough && mix(0xDEE9, idx) % 3 == 0 {
            GenKnobs { max_nodes: 8, max_ops: 90, span_ms: 60_000, level_bias_none: 0.4, ghosts: 0.2, big_bulk: 0.05 }
        } else {
            GenKnobs { max_nodes: 5, max_ops: 40, span_ms: 25_000, level_bias_none: 0.4, ghosts: 0.2, big_bulk: 0.05 }
        };
        serde_json::to_value(gen_cluster_scenario(&mut rng, &k)).unwrap()
    }
    fn isolate(&self, scenario: &Value) -> bool {
        scenario.get("advert").is_none()
    }
    fn execute(&self, scenario: &Value) -> Outcome {
        if let Some(a) = scenario.get("advert") {
            let sc: crate::e1::c02::Scenario = match serde_json::from_value(a.clone()) {
                Ok(s) => s,
                Err(e) => return Outcome::invalid(format!("bad scenario: {e}")),
            };
            let class = "C01/keyspace-changed-without-a-new-change-timestamp";
            let mut out = crate::e1::c02::execute_scenario_with(&sc, "C01-single-node", Some(class));
            // set/store agreement is C02's subject
            out.violations.retain(|v| v.class.starts_with("C01/") || v.class.contains("/panic@"));
            out.probe("single_node_advertising_arm_case");
            return out;
        }
        let sc: Scenario = match serde_json::from_value(scenario.clone()) {
            Ok(s) => s,
            Err(e) => return Outcome::invalid(format!("bad scenario: {e}")),
        };
        match run_cluster(&sc, "C01") {
            Ok(mut r) => {
                judge_convergence(&mut r);
                r.out.nontrivial = nontrivial_cluster(&r);
                r.out
            },
            Err(e) => Outcome::invalid(e),
        }
    }
    fn shrink(&self, sc: &Value) -> Vec<Value> {
        if let Some(a) = sc.get("advert") {
            return crate::e1::c02::shrink_groups(a).into_iter().map(|v| serde_json::json!({ "advert": v })).collect();
        }
        shrink_cluster(sc)
    }
}
