//! C12 — RPC delivers exactly the bytes sent; damaged or short frames are rejected.

use std::cell::RefCell;
use std::net::{IpAddr, Ipv4Addr, SocketAddr};
use std::rc::Rc;
use std::sync::Arc;
use std::time::Duration;

use datacake_rpc::{Body, Channel, DataView, ErrorCode, Handler, Request, RpcClient, RpcService, Server, ServiceRegistry, Status};
use rand::Rng;
use rand::SeedableRng;
use rkyv::{AlignedVec, Archive, Deserialize, Serialize};
use serde_json::Value;

use crate::framework::*;

#[repr(C)]
#[derive(Serialize, Deserialize, Archive, PartialEq, Debug, Clone)]
#[archive(check_bytes)]
pub struct Fixed {
    pub a: u64,
    pub b: u32,
    pub c: [u8; 12],
    pub d: i64,
}

#[repr(C)]
#[derive(Serialize, Deserialize, Archive, PartialEq, Debug, Clone)]
#[archive(check_bytes)]
pub struct Inner {
    pub name: String,
    pub tags: Vec<u16>,
}

#[repr(C)]
#[derive(Serialize, Deserialize, Archive, PartialEq, Debug, Clone)]
#[archive(check_bytes)]
pub struct Rich {
    pub id: u64,
    pub text: String,
    pub blob: Vec<u8>,
    pub opt: Option<Inner>,
    pub list: Vec<Inner>,
    pub flag: bool,
}

/// what the handler is told to do
#[repr(C)]
#[derive(Serialize, Deserialize, Archive, PartialEq, Debug, Clone)]
#[archive(check_bytes)]
pub struct Echo {
    pub rich: Rich,
    pub fixed: Fixed,
    /// 0 = reply Ok(echo), otherwise fail with error code (1..=5) and `err_msg`
    pub fail_with: u8,
    pub err_msg: String,
}

/// small messages: archived forms whose alignment is below 4 and whose length is not a multiple of 4
#[repr(C)]
#[derive(Serialize, Deserialize, Archive, PartialEq, Debug, Clone)]
#[archive(check_bytes)]
pub struct Tiny3 {
    pub r: u8,
    pub g: u8,
    pub b: u8,
}
#[repr(C)]
#[derive(Serialize, Deserialize, Archive, PartialEq, Debug, Clone)]
#[archive(check_bytes)]
pub struct Tiny5 {
    pub a: [u8; 5],
}
#[repr(C)]
#[derive(Serialize, Deserialize, Archive, PartialEq, Debug, Clone)]
#[archive(check_bytes)]
pub struct Tiny2 {
    pub x: u16,
}

/// a message with nothing in it (its archived form has size zero), answered with `()`
#[repr(C)]
#[derive(Serialize, Deserialize, Archive, PartialEq, Debug, Clone)]
#[archive(check_bytes)]
pub struct Nothing;

/// a message whose fields are reference counted: the sender keeps the pointers and puts them into
/// message after message, and one message names the same pointer more than once
#[repr(C)]
#[derive(Serialize, Deserialize, Archive, PartialEq, Debug, Clone)]
#[archive(check_bytes)]
pub struct SharedMsg {
    pub label: Arc<String>,
    pub again: Arc<String>,
    pub parts: Vec<Arc<Vec<u8>>>,
    pub rev: u32,
}

pub struct EchoSvc {
    /// every invocation: the value the handler observed
    pub seen: Rc<RefCell<Vec<Echo>>>,
    /// every invocation of the shared-pointer handler: what it observed, or why the frame it was
    /// handed is not a valid archive of the message type
    pub seen_shared: Rc<RefCell<Vec<Result<SharedMsg, String>>>>,
    /// the label the handler keeps and re-uses in its replies (server-side shared pointer)
    pub held: Rc<RefCell<Option<Arc<String>>>>,
}
// single-threaded simulation: the handler log is only touched from the one simulation thread
unsafe impl Send for EchoSvc {}
unsafe impl Sync for EchoSvc {}

impl RpcService for EchoSvc {
    fn register_handlers(r: &mut ServiceRegistry<Self>) {
        r.add_handler::<Echo>();
        r.add_handler::<Tiny3>();
        r.add_handler::<Tiny5>();
        r.add_handler::<Tiny2>();
        r.add_handler::<Nothing>();
        r.add_handler::<Body>();
        r.add_handler::<SharedMsg>();
    }
}

// the frame is validated before anything is read through it: a frame that passed the checksum but
// is not a valid archive of the message is recorded, not dereferenced
#[datacake_rpc::async_trait]
impl Handler<SharedMsg> for EchoSvc {
    type Reply = SharedMsg;
    async fn on_message(&self, msg: Request<SharedMsg>) -> Result<SharedMsg, Status> {
        let frame = msg.as_bytes();
        let body = &frame[..frame.len().saturating_sub(4)];
        if let Err(e) = rkyv::check_archived_root::<SharedMsg>(body) {
            self.seen_shared.borrow_mut().push(Err(format!("{}-byte body is not a valid archive: {e}", body.len())));
            return Err(Status::internal("malformed"));
        }
        let v: SharedMsg = msg.deserialize_view().map_err(Status::internal)?;
        self.seen_shared.borrow_mut().push(Ok(v.clone()));
        let mut held = self.held.borrow_mut();
        let label = match held.as_ref() {
            Some(l) if **l == *v.label => l.clone(),
            _ => {
                *held = Some(Arc::new((*v.label).clone()));
                held.as_ref().unwrap().clone()
            },
        };
        Ok(SharedMsg { label: label.clone(), again: label, parts: v.parts.clone(), rev: v.rev.wrapping_add(1) })
    }
}

// raw bodies are not framed at all (no archive root, no checksum trailer): the handler answers
// with the length it saw followed by the bytes it saw, reversed
#[datacake_rpc::async_trait]
impl Handler<Body> for EchoSvc {
    type Reply = Body;
    async fn on_message(&self, msg: Request<Body>) -> Result<Body, Status> {
        let bytes = hyper::body::to_bytes(msg.into_inner().into_inner()).await.map_err(Status::internal)?;
        let mut reply = vec![bytes.len() as u8];
        reply.extend(bytes.iter().rev());
        Ok(Body::from(reply))
    }
}

thread_local! {
    /// invocations of the `Nothing` handler
    static NOTHING_CALLS: std::cell::Cell<u64> = std::cell::Cell::new(0);
}

#[datacake_rpc::async_trait]
impl Handler<Nothing> for EchoSvc {
    type Reply = ();
    async fn on_message(&self, _msg: Request<Nothing>) -> Result<(), Status> {
        NOTHING_CALLS.with(|c| c.set(c.get() + 1));
        Ok(())
    }
}

// the small-message handlers answer with every component incremented: the reply shows what the
// handler observed, and it is a small message itself
#[datacake_rpc::async_trait]
impl Handler<Tiny3> for EchoSvc {
    type Reply = Tiny3;
    async fn on_message(&self, msg: Request<Tiny3>) -> Result<Tiny3, Status> {
        let v: Tiny3 = msg.deserialize_view().map_err(Status::internal)?;
        Ok(Tiny3 { r: v.r.wrapping_add(1), g: v.g.wrapping_add(1), b: v.b.wrapping_add(1) })
    }
}
#[datacake_rpc::async_trait]
impl Handler<Tiny5> for EchoSvc {
    type Reply = Tiny5;
    async fn on_message(&self, msg: Request<Tiny5>) -> Result<Tiny5, Status> {
        let v: Tiny5 = msg.deserialize_view().map_err(Status::internal)?;
        let mut a = v.a;
        for x in a.iter_mut() {
            *x = x.wrapping_add(1);
        }
        Ok(Tiny5 { a })
    }
}
#[datacake_rpc::async_trait]
impl Handler<Tiny2> for EchoSvc {
    type Reply = Tiny2;
    async fn on_message(&self, msg: Request<Tiny2>) -> Result<Tiny2, Status> {
        let v: Tiny2 = msg.deserialize_view().map_err(Status::internal)?;
        Ok(Tiny2 { x: v.x.wrapping_add(1) })
    }
}

fn code_of(n: u8) -> ErrorCode {
    match n {
        1 => ErrorCode::ServiceUnavailable,
        2 => ErrorCode::InternalError,
        3 => ErrorCode::InvalidPayload,
        4 => ErrorCode::ConnectionError,
        _ => ErrorCode::Timeout,
    }
}

#[datacake_rpc::async_trait]
impl Handler<Echo> for EchoSvc {
    type Reply = Echo;
    async fn on_message(&self, msg: Request<Echo>) -> Result<Echo, Status> {
        let v: Echo = msg.deserialize_view().map_err(Status::internal)?;
        self.seen.borrow_mut().push(v.clone());
        if v.fail_with != 0 {
            return Err(Status { code: code_of(v.fail_with), message: v.err_msg.clone() });
        }
        Ok(v)
    }
}

/// Same URI as `EchoSvc`/`Echo`, but replies with whatever bytes it was given.
pub struct Impostor {
    pub reply: Rc<RefCell<Vec<u8>>>,
    /// cut points: when not empty the reply body is streamed in pieces, without a declared length
    pub cuts: Rc<RefCell<Vec<usize>>>,
}

fn chunked(bytes: &[u8], cuts: &[usize]) -> hyper::Body {
    let mut parts: Vec<Result<Vec<u8>, std::io::Error>> = Vec::new();
    let mut last = 0usize;
    for c in cuts.iter().copied().chain(std::iter::once(bytes.len())) {
        let c = c.min(bytes.len());
        if c > last {
            parts.push(Ok(bytes[last..c].to_vec()));
            last = c;
        }
    }
    hyper::Body::wrap_stream(futures::stream::iter(parts))
}

fn seeded_cuts(rng: &mut impl Rng, len: usize) -> Vec<usize> {
    let k = rng.gen_range(1..=8usize);
    let mut cuts: Vec<usize> = (0..k).map(|_| rng.gen_range(0..=len)).collect();
    cuts.sort();
    cuts.dedup();
    cuts
}
unsafe impl Send for Impostor {}
unsafe impl Sync for Impostor {}
impl RpcService for Impostor {
    fn service_name() -> &'static str {
        <EchoSvc as RpcService>::service_name()
    }
    fn register_handlers(r: &mut ServiceRegistry<Self>) {
        r.add_handler::<Echo>();
    }
}
#[datacake_rpc::async_trait]
impl Handler<Echo> for Impostor {
    type Reply = Body;
    async fn on_message(&self, _msg: Request<Echo>) -> Result<Body, Status> {
        let cuts = self.cuts.borrow().clone();
        if cuts.is_empty() {
            Ok(Body::from(self.reply.borrow().clone()))
        } else {
            Ok(Body::new(chunked(&self.reply.borrow(), &cuts)))
        }
    }
}

#[derive(serde::Serialize, serde::Deserialize, Clone, Debug)]
pub struct Scenario {
    /// seed the message values are drawn from
    pub value_seed: u64,
    /// how many values to exercise
    pub values: usize,
    /// upper bound for the variable-size parts (bytes)
    pub max_blob: usize,
    /// mutated frames pushed through the network per value
    pub net_samples: usize,
    pub net_seed: u64,
    pub latency_ms: (u64, u64),
    /// hold the link for this many ms in the middle of the exchange (0 = no hold)
    pub hold_ms: u64,
}

pub struct C12;

fn gen_string(rng: &mut impl Rng, max: usize) -> String {
    let n = match rng.gen_range(0..5) {
        0 => 0,
        1 => 1,
        _ => rng.gen_range(0..max.max(1)),
    };
    (0..n).map(|_| char::from_u32(rng.gen_range(0x20..0x7f)).unwrap()).collect()
}

fn gen_inner(rng: &mut impl Rng) -> Inner {
    Inner { name: gen_string(rng, 24), tags: (0..rng.gen_range(0..6)).map(|_| rng.gen()).collect() }
}

fn gen_echo(rng: &mut impl Rng, max_blob: usize) -> Echo {
    let blob_len = match rng.gen_range(0..6) {
        0 => 0,
        1 => 1,
        2 => max_blob,
        _ => rng.gen_range(0..max_blob.max(1)),
    };
    Echo {
        rich: Rich {
            id: rng.gen(),
            text: gen_string(rng, 64),
            blob: (0..blob_len).map(|_| rng.gen()).collect(),
            opt: if rng.gen_bool(0.5) { Some(gen_inner(rng)) } else { None },
            // now and then a long flat list: its serialisation needs far more scratch space than
            // the serializer's first (16 KiB) heap block
            list: (0..if rng.gen_bool(0.12) { rng.gen_range(1_500..6_000) } else { rng.gen_range(0..4) }).map(|_| gen_inner(rng)).collect(),
            flag: rng.gen(),
        },
        fixed: Fixed { a: rng.gen(), b: rng.gen(), c: rng.gen(), d: rng.gen() },
        fail_with: if rng.gen_bool(0.25) { rng.gen_range(1..=5) } else { 0 },
        err_msg: gen_string(rng, 40),
    }
}

fn aligned(b: &[u8]) -> AlignedVec {
    let mut v = AlignedVec::with_capacity(b.len().max(16));
    v.extend_from_slice(b);
    v
}

/// Is this (mutated) frame refused by the decision point both request and reply paths use?
/// Ok(true) = refused, Ok(false) = accepted, Err = panicked.
fn refused<T: Archive>(bytes: &[u8]) -> Result<bool, String>
where
    T::Archived: 'static,
{
    let data = aligned(bytes);
    let r = std::panic::catch_unwind(std::panic::AssertUnwindSafe(|| DataView::<T>::using(data).is_err()));
    let panics = take_panics();
    match r {
        Ok(b) => Ok(b),
        Err(_) => Err(panics.first().map(|(l, m)| format!("{l}: {m}")).unwrap_or_else(|| "panic".into())),
    }
}

fn with_crc(body: &[u8]) -> Vec<u8> {
    let mut v = body.to_vec();
    v.extend_from_slice(&crc32fast::hash(body).to_le_bytes());
    v
}

/// Enumerates the corruption faults of one frame at the decision point.
fn enumerate_frame<T: Archive>(name: &str, frame: &[u8], root_size: usize, rng: &mut impl Rng, full: bool, out: &mut Outcome)
where
    T::Archived: 'static,
{
    let check = |bytes: &[u8], class: &str, what: String, out: &mut Outcome| match refused::<T>(bytes) {
        Ok(true) => {},
        Ok(false) => out.violate(format!("C12/{class}-accepted"), format!("{name}: {what} was accepted as a valid {name} view")),
        Err(p) => out.violate(format!("C12/{class}-panics"), format!("{name}: {what} made DataView::using panic: {p}")),
    };
    // the untouched frame must be accepted
    match refused::<T>(frame) {
        Ok(false) => {},
        other => out.violate("C12/valid-frame-refused", format!("{name}: an untouched frame of {} bytes was not accepted: {:?}", frame.len(), other)),
    }
    // every single-bit flip (or a seeded sample of them for big frames)
    let bits = frame.len() * 8;
    let flip_all = full || bits <= 8 * 1024;
    let n_flips = if flip_all { bits } else { 4096 };
    for i in 0..n_flips {
        let bit = if flip_all { i } else { rng.gen_range(0..bits) };
        let mut m = frame.to_vec();
        m[bit / 8] ^= 1 << (bit % 8);
        check(&m, "bit-flipped-frame", format!("the frame with bit {bit} flipped"), out);
        out.fault("frame_bit_flip");
    }
    // every truncation
    let trunc_all = full || frame.len() <= 2048;
    let n_trunc = if trunc_all { frame.len() } else { 1024 };
    for i in 0..n_trunc {
        let len = if trunc_all { i } else { rng.gen_range(0..frame.len()) };
        check(&frame[..len], "truncated-frame", format!("the frame truncated to {len} of {} bytes", frame.len()), out);
        out.fault("frame_truncation");
    }
    // extensions by 1..16 bytes
    for extra in 1..=16usize {
        let mut m = frame.to_vec();
        for _ in 0..extra {
            m.push(rng.gen());
        }
        check(&m, "extended-frame", format!("the frame extended by {extra} bytes"), out);
        out.fault("frame_extension");
    }
    // every length below (fixed-size part + trailer), with a CORRECT checksum
    for len in 0..root_size {
        for variant in 0..2 {
            let body: Vec<u8> = if variant == 0 { vec![0u8; len] } else { (0..len).map(|_| rng.gen()).collect() };
            let m = with_crc(&body);
            check(&m, "short-checksummed-frame", format!("a {len}-byte body (fixed-size part is {root_size} bytes) with a correct checksum trailer"), out);
            out.fault("short_frame_with_valid_checksum");
        }
    }
}

const PORT: u16 = 9200;

fn uri_path() -> String {
    let s = |p: &str| p.replace(['<', '>'], "-");
    format!("/{}/{}", s(<EchoSvc as RpcService>::service_name()), s(std::any::type_name::<Echo>()))
}

impl Check for C12 {
    fn id(&self) -> &'static str {
        "C12"
    }
    fn title(&self) -> &'static str {
        "RPC delivers exactly the bytes sent; damaged or short frames are rejected"
    }
    fn level(&self) -> &'static str {
        "fault_enumeration"
    }
    fn engine(&self) -> &'static str {
        "E2: server host (real datacake-rpc Server + echo service that logs every handler invocation) and client host (real RpcClient, plus a raw hyper HTTP/2 client for damaged requests and a same-URI impostor service for damaged replies) over simulated TCP; frame corruption enumerated at DataView::using, the decision point both directions share"
    }
    fn rule(&self) -> &'static str {
        "Cases: seeded message values (fixed-size struct, strings, byte vectors empty..max, nested options and vectors, one value in eight with a flat list of 1500-6000 small structs; a quarter make the handler fail with a seeded error code and message). Per value: (1) through the real client and server (plus raw unframed bodies of 0-5 and 9 bytes, a message and a reply of size zero, and three small messages of 3, 5 and 2 bytes, whose archived forms have alignment below 4 and lengths that are not multiples of 4, answered by a handler that increments every component; and a message whose fields are reference-counted pointers the sender keeps and names in three consecutive messages, twice inside each, with another message in between, answered from a pointer the handler keeps): handler-observed value == sent, reply == handler's, error code and message identical, exactly one invocation; (2) at DataView::using for the request frame, the reply frame and a Status frame: EVERY single-bit flip (frames <= 1 KiB; 4096 seeded flips above), EVERY truncation length (<= 2 KiB; 1024 seeded above), extensions by 1..16 bytes, and EVERY length below size_of(archived root) as an all-zero and a random body with a CORRECT checksum; (3) a seeded sample of those damaged frames is sent through the network - requests by a raw HTTP/2 POST to the real URI, replies by an impostor service on the same URI - with latency and an optional link hold; (4) up to six valid request frames and six valid reply frames are delivered in 2-9 pieces at seeded cut points without a declared body length (a streaming peer) and must be observed unchanged. Oracle: damaged/short frames are refused (Err / InvalidPayload), no handler runs on them, nothing panics (debug assertions and overflow checks are on). Non-trivial = every case (each runs thousands of corruptions). Distinct = hash of the value seed and sizes."
    }
    fn assumptions(&self) -> Vec<String> {
        vec![
            "corruption is injected at the frame layer (what datacake checks), not at TCP level (which would break HTTP/2 framing before datacake sees anything)".into(),
            "frames whose checksum is valid and whose body is at least the fixed-size part are outside the property (an attacker-made body is not a damaged frame)".into(),
        ]
    }
    fn components(&self) -> Vec<(&'static str, &'static str)> {
        vec![
            ("datacake-rpc to_view_bytes / DataView::using / RequestContents::from_body / RpcClient / Server / Status framing, hyper HTTP/2", "real"),
            ("TCP", "simulated (turmoil)"),
            ("damaged-request sender / damaged-reply service", "harness (raw hyper client, impostor service with the same service_name/path)"),
        ]
    }
    fn budget(&self, tier: Tier) -> Budget {
        match tier {
            Tier::Quick => Budget { wall_secs: 60, max_cases: 3_000, checkpoint_every: 1, workers: 16 },
            Tier::Thorough => Budget { wall_secs: 900, max_cases: 200_000, checkpoint_every: 1, workers: 16 },
        }
    }
    fn generate(&self, seed: u64, idx: u64, tier: Tier) -> Value {
        let mut rng = rng_from(case_seed(seed, idx));
        let big = rng.gen_bool(0.2);
        serde_json::to_value(Scenario {
            value_seed: rng.gen(),
            values: if tier == Tier::Quick { 2 } else { 4 },
            max_blob: if big { rng.gen_range(1_000..20_000) } else { rng.gen_range(0..300) },
            net_samples: 24,
            net_seed: rng.gen(),
            latency_ms: (1, *[2u64, 20, 100].get(rng.gen_range(0..3)).unwrap()),
            hold_ms: if rng.gen_bool(0.3) { rng.gen_range(10..500) } else { 0 },
        })
        .unwrap()
    }
    fn isolate(&self, _scenario: &Value) -> bool {
        true
    }
    fn execute(&self, scenario: &Value) -> Outcome {
        let sc: Scenario = match serde_json::from_value(scenario.clone()) {
            Ok(s) => s,
            Err(e) => return Outcome::invalid(format!("bad scenario: {e}")),
        };
        let mut out = Outcome::default();
        let mut rng = rng_from(sc.value_seed);
        let values: Vec<Echo> = (0..sc.values).map(|_| gen_echo(&mut rng, sc.max_blob)).collect();

        // (2) enumeration at the decision point
        let mut net_requests: Vec<(Vec<u8>, String)> = Vec::new();
        let mut net_replies: Vec<(Vec<u8>, String)> = Vec::new();
        for v in &values {
            let ser = std::panic::catch_unwind(std::panic::AssertUnwindSafe(|| datacake_rpc::to_view_bytes(v).map(|b| b.to_vec())));
            let frame = match ser {
                Ok(Ok(f)) => f,
                Ok(Err(e)) => {
                    out.violate("C12/message-cannot-be-framed", format!("to_view_bytes failed for a message with a list of {} and a blob of {} bytes: {e}", v.rich.list.len(), v.rich.blob.len()));
                    continue;
                },
                Err(_) => {
                    let p = take_panics();
                    out.violate(
                        "C12/framing-a-message-panics",
                        format!("to_view_bytes panicked for a message with a list of {} structs and a blob of {} bytes: {}", v.rich.list.len(), v.rich.blob.len(), p.first().map(|(l, m)| format!("{l}: {m}")).unwrap_or_default()),
                    );
                    continue;
                },
            };
            let root = std::mem::size_of::<rkyv::Archived<Echo>>();
            enumerate_frame::<Echo>("Echo", &frame, root, &mut rng, false, &mut out);
            let st = Status { code: code_of(v.fail_with.max(1)), message: v.err_msg.clone() };
            let sframe = datacake_rpc::to_view_bytes(&st).expect("serialize").to_vec();
            enumerate_frame::<Status>("Status", &sframe, std::mem::size_of::<rkyv::Archived<Status>>(), &mut rng, true, &mut out);
            let fframe = datacake_rpc::to_view_bytes(&v.fixed).expect("serialize").to_vec();
            enumerate_frame::<Fixed>("Fixed", &fframe, std::mem::size_of::<rkyv::Archived<Fixed>>(), &mut rng, true, &mut out);
            // samples for the network leg
            for _ in 0..sc.net_samples / 2 {
                let (m, what) = match rng.gen_range(0..4) {
                    0 => {
                        let bit = rng.gen_range(0..frame.len() * 8);
                        let mut m = frame.clone();
                        m[bit / 8] ^= 1 << (bit % 8);
                        (m, format!("bit {bit} flipped"))
                    },
                    1 => {
                        let l = rng.gen_range(0..frame.len());
                        (frame[..l].to_vec(), format!("truncated to {l}"))
                    },
                    2 => {
                        let l = rng.gen_range(0..root);
                        (with_crc(&vec![0u8; l]), format!("{l}-byte zero body with valid checksum"))
                    },
                    _ => {
                        let l = rng.gen_range(0..root);
                        let body: Vec<u8> = (0..l).map(|_| rng.gen()).collect();
                        (with_crc(&body), format!("{l}-byte random body with valid checksum"))
                    },
                };
                if rng.gen_bool(0.5) {
                    net_requests.push((m, what));
                } else {
                    net_replies.push((m, what));
                }
            }
        }

        // (1) + (3) through the network
        let seen: Rc<RefCell<Vec<Echo>>> = Rc::new(RefCell::new(Vec::new()));
        let seen_shared: Rc<RefCell<Vec<Result<SharedMsg, String>>>> = Rc::new(RefCell::new(Vec::new()));
        let held: Rc<RefCell<Option<Arc<String>>>> = Rc::new(RefCell::new(None));
        let impostor_reply: Rc<RefCell<Vec<u8>>> = Rc::new(RefCell::new(Vec::new()));
        let impostor_cuts: Rc<RefCell<Vec<usize>>> = Rc::new(RefCell::new(Vec::new()));
        let chunk_seed = sc.value_seed ^ 0xC4C4;
        let use_impostor = Rc::new(std::cell::Cell::new(false));
        let net_out = Rc::new(RefCell::new(Outcome::default()));
        let mut sim = turmoil::Builder::new()
            .simulation_duration(Duration::from_secs(3600))
            .tick_duration(Duration::from_millis(1))
            .min_message_latency(Duration::from_millis(sc.latency_ms.0))
            .max_message_latency(Duration::from_millis(sc.latency_ms.1.max(sc.latency_ms.0)))
            .build_with_rng(Box::new(rand::rngs::SmallRng::seed_from_u64(sc.net_seed)));
        let (swap_tx, swap_rx) = tokio::sync::mpsc::unbounded_channel::<(bool, tokio::sync::oneshot::Sender<()>)>();
        let swap_rx = Rc::new(RefCell::new(Some(swap_rx)));
        {
            let (seen, impostor_reply, impostor_cuts, seen_shared, held) = (seen.clone(), impostor_reply.clone(), impostor_cuts.clone(), seen_shared.clone(), held.clone());
            sim.host("server", move || {
                let (seen, impostor_reply, swap_rx, impostor_cuts, seen_shared, held) = (seen.clone(), impostor_reply.clone(), swap_rx.clone(), impostor_cuts.clone(), seen_shared.clone(), held.clone());
                async move {
                    let server = Server::listen((IpAddr::from(Ipv4Addr::UNSPECIFIED), PORT).into()).await?;
                    server.add_service(EchoSvc { seen: seen.clone(), seen_shared: seen_shared.clone(), held: held.clone() });
                    let mut rx = swap_rx.borrow_mut().take().expect("server started twice");
                    while let Some((imp, done)) = rx.recv().await {
                        // same service name: adding replaces the handlers for the URI
                        if imp {
                            server.add_service(Impostor { reply: impostor_reply.clone(), cuts: impostor_cuts.clone() });
                        } else {
                            server.add_service(EchoSvc { seen: seen.clone(), seen_shared: seen_shared.clone(), held: held.clone() });
                        }
                        let _ = done.send(());
                    }
                    std::future::pending::<()>().await;
                    Ok(())
                }
            });
        }
        {
            let (values, seen, impostor_reply, net_out, use_impostor, impostor_cuts) = (values.clone(), seen.clone(), impostor_reply.clone(), net_out.clone(), use_impostor.clone(), impostor_cuts.clone());
            let seen_shared = seen_shared.clone();
            let hold_ms = sc.hold_ms;
            sim.client("client", async move {
                let addr: SocketAddr = (turmoil::lookup("server"), PORT).into();
                let client = RpcClient::<EchoSvc>::new(Channel::connect(addr));
                // (1) fidelity
                for (i, v) in values.iter().enumerate() {
                    let before = seen.borrow().len();
                    if hold_ms > 0 && i == 0 {
                        turmoil::hold("client", "server");
                        let h = hold_ms;
                        tokio::task::spawn_local(async move {
                            tokio::time::sleep(Duration::from_millis(h)).await;
                            turmoil::release("client", "server");
                        });
                        net_out.borrow_mut().fault("link_hold");
                    }
                    let res = client.send(v).await;
                    let mut o = net_out.borrow_mut();
                    let calls: Vec<Echo> = seen.borrow()[before..].to_vec();
                    if calls.len() != 1 {
                        o.violate("C12/handler-not-invoked-exactly-once", format!("value #{i}: the handler ran {} times", calls.len()));
                    } else if calls[0] != *v {
                        o.violate("C12/handler-observed-different-value", format!("value #{i}: sent {:?}, handler observed {:?}", v.fixed, calls[0].fixed));
                    }
                    match res {
                        Ok(reply) => {
                            if v.fail_with != 0 {
                                o.violate("C12/handler-error-turned-into-ok", format!("value #{i}: the handler failed but the client got Ok"));
                            }
                            match reply.deserialize_view() {
                                Ok(r) => {
                                    let r: Echo = r;
                                    if r != *v {
                                        o.violate("C12/client-observed-different-reply", format!("value #{i}: reply differs from the handler's value"));
                                    }
                                },
                                Err(_) => o.violate("C12/reply-not-deserialisable", format!("value #{i}")),
                            }
                        },
                        Err(st) => {
                            if v.fail_with == 0 {
                                o.violate("C12/ok-turned-into-error", format!("value #{i}: {:?} {}", st.code, st.message));
                            } else if st.code != code_of(v.fail_with) || st.message != v.err_msg {
                                o.violate(
                                    "C12/handler-error-not-delivered-verbatim",
                                    format!("value #{i}: handler failed with ({:?}, {:?}) but the client saw ({:?}, {:?})", code_of(v.fail_with), v.err_msg, st.code, st.message),
                                );
                            }
                        },
                    }
                }
                // (3a) damaged requests: raw HTTP/2 POST to the real URI
                let io = turmoil::net::TcpStream::connect(addr).await?;
                let (mut sender, conn) = hyper::client::conn::Builder::new().http2_only(true).handshake::<_, hyper::Body>(io).await?;
                tokio::task::spawn_local(async move {
                    let _ = conn.await;
                });
                // (1b) small messages (alignment below 4, odd lengths) through the same client
                for (i, v) in values.iter().enumerate() {
                    let c = v.fixed.c;
                    let t3 = Tiny3 { r: c[0], g: c[1], b: c[2] };
                    let t5 = Tiny5 { a: [c[3], c[4], c[5], c[6], c[7]] };
                    let t2 = Tiny2 { x: u16::from_le_bytes([c[8], c[9]]) };
                    let r3 = client.send(&t3).await.ok().and_then(|r| r.deserialize_view().ok()).map(|r: Tiny3| r);
                    let r5 = client.send(&t5).await.ok().and_then(|r| r.deserialize_view().ok()).map(|r: Tiny5| r);
                    let r2 = client.send(&t2).await.ok().and_then(|r| r.deserialize_view().ok()).map(|r: Tiny2| r);
                    let calls_before = NOTHING_CALLS.with(|c| c.get());
                    let r0 = client.send(&Nothing).await.map(|_| ()).map_err(|e| format!("{:?}: {}", e.code, e.message));
                    let calls = NOTHING_CALLS.with(|c| c.get()) - calls_before;
                    // raw bodies of 0..=5 bytes and one longer one
                    let mut raw_results: Vec<(Vec<u8>, Result<Vec<u8>, String>)> = Vec::new();
                    for len in [0usize, 1, 2, 3, 4, 5, 9] {
                        let payload: Vec<u8> = c.iter().cycle().skip(i % 12).take(len).copied().collect();
                        let res = match client.send_owned(Body::from(payload.clone())).await {
                            Ok(r) => hyper::body::to_bytes(r.into_inner()).await.map(|b| b.to_vec()).map_err(|e| e.to_string()),
                            Err(e) => Err(format!("{:?}: {}", e.code, e.message)),
                        };
                        raw_results.push((payload, res));
                    }
                    let mut o = net_out.borrow_mut();
                    o.probe("small_messages_exchanged");
                    for (payload, res) in raw_results {
                        let mut want = vec![payload.len() as u8];
                        want.extend(payload.iter().rev());
                        if res.as_ref().ok() != Some(&want) {
                            o.violate("C12/raw-body-not-delivered-intact", format!("value #{i}: a raw body of {} byte(s) {:?}: the client got {:?} instead of the handler's {:?}", payload.len(), payload, res, want));
                        }
                    }
                    if calls != 1 {
                        o.violate("C12/empty-message-handler-not-invoked-exactly-once", format!("value #{i}: a message of size zero: the handler ran {calls} times (client: {:?})", r0));
                    } else if let Err(e) = &r0 {
                        o.violate("C12/empty-reply-refused", format!("value #{i}: the handler answered (), the client got {e}"));
                    }
                    let w3 = Tiny3 { r: t3.r.wrapping_add(1), g: t3.g.wrapping_add(1), b: t3.b.wrapping_add(1) };
                    if r3.as_ref() != Some(&w3) {
                        o.violate("C12/small-message-not-delivered-intact", format!("value #{i}: sent {:?}, the handler answers observed+1, client got {:?} instead of {:?}", t3, r3, w3));
                    }
                    let mut a5 = t5.a;
                    for x in a5.iter_mut() {
                        *x = x.wrapping_add(1);
                    }
                    if r5.as_ref().map(|r| r.a) != Some(a5) {
                        o.violate("C12/small-message-not-delivered-intact", format!("value #{i}: sent {:?}, client got {:?} instead of {:?}", t5, r5, a5));
                    }
                    if r2.as_ref().map(|r| r.x) != Some(t2.x.wrapping_add(1)) {
                        o.violate("C12/small-message-not-delivered-intact", format!("value #{i}: sent {:?}, client got {:?} instead of {}", t2, r2, t2.x.wrapping_add(1)));
                    }
                }
                // (1c) reference-counted fields: the sender keeps its pointers and names them in one
                // message after another (and twice inside one message), other messages in between
                for (i, v) in values.iter().enumerate() {
                    let label = Arc::new(v.rich.text.clone());
                    let parts: Vec<Arc<Vec<u8>>> = v.rich.blob.chunks(97).take(3).map(|c| Arc::new(c.to_vec())).collect();
                    for rev in 0..3u32 {
                        let mut p = parts.clone();
                        if let Some(first) = parts.first() {
                            p.push(first.clone());
                        }
                        let m = SharedMsg { label: label.clone(), again: label.clone(), parts: p, rev: rev + 10 * i as u32 };
                        let before = seen_shared.borrow().len();
                        let res = client.send(&m).await;
                        if rev == 1 {
                            // some other message between two uses of the pointers
                            let _ = client.send(&Tiny2 { x: rev as u16 }).await;
                        }
                        let mut o = net_out.borrow_mut();
                        o.probe("shared_pointer_messages_exchanged");
                        let calls: Vec<Result<SharedMsg, String>> = seen_shared.borrow()[before..].to_vec();
                        match calls.as_slice() {
                            [Ok(seen)] if *seen == m => {},
                            [Ok(seen)] => o.violate("C12/handler-observed-different-value", format!("value #{i}, use #{rev} of the same reference-counted fields: sent label {:?} rev {}, handler observed label {:?} rev {}", m.label, m.rev, seen.label, seen.rev)),
                            [Err(e)] => o.violate("C12/handler-given-a-frame-that-is-not-the-message", format!("value #{i}, use #{rev} of the same reference-counted fields: {e}")),
                            other => o.violate("C12/handler-not-invoked-exactly-once", format!("value #{i}, use #{rev} of the same reference-counted fields: the handler ran {} times", other.len())),
                        }
                        if let [Ok(_)] = calls.as_slice() {
                            match res {
                                Ok(reply) => {
                                    let frame = reply.as_bytes();
                                    let body = &frame[..frame.len().saturating_sub(4)];
                                    if let Err(e) = rkyv::check_archived_root::<SharedMsg>(body) {
                                        o.violate("C12/client-given-a-reply-that-is-not-the-message", format!("value #{i}, reply #{rev} built from a pointer the handler keeps: {e}"));
                                    } else {
                                        let want = SharedMsg { label: m.label.clone(), again: m.label.clone(), parts: m.parts.clone(), rev: m.rev.wrapping_add(1) };
                                        match reply.deserialize_view() {
                                            Ok(r) => {
                                                let r: SharedMsg = r;
                                                if r != want {
                                                    o.violate("C12/client-observed-different-reply", format!("value #{i}, reply #{rev} built from a pointer the handler keeps: label {:?} rev {} instead of {:?} rev {}", r.label, r.rev, want.label, want.rev));
                                                }
                                            },
                                            Err(_) => o.violate("C12/reply-not-deserialisable", format!("value #{i} (shared pointers)")),
                                        }
                                    }
                                },
                                Err(st) => o.violate("C12/ok-turned-into-error", format!("value #{i} (shared pointers): {:?} {}", st.code, st.message)),
                            }
                        }
                    }
                }
                // (3c) valid frames delivered in pieces, without a declared body length (a streaming
                // peer): the handler must still observe exactly the value sent
                let mut crng = rng_from(chunk_seed);
                for (i, v) in values.iter().enumerate().take(6) {
                    let Ok(frame) = datacake_rpc::to_view_bytes(v).map(|b| b.to_vec()) else { continue };
                    let cuts = seeded_cuts(&mut crng, frame.len());
                    let before = seen.borrow().len();
                    let req = hyper::Request::builder().method("POST").uri(format!("http://{}{}", addr, uri_path())).body(chunked(&frame, &cuts)).unwrap();
                    let resp = sender.send_request(req).await;
                    let mut o = net_out.borrow_mut();
                    o.fault("valid_request_streamed_in_pieces");
                    let calls: Vec<Echo> = seen.borrow()[before..].to_vec();
                    if calls.len() != 1 {
                        o.violate("C12/streamed-request-handler-not-invoked-exactly-once", format!("value #{i} sent as {} pieces (cuts {:?} of {} bytes): the handler ran {} times", cuts.len() + 1, cuts, frame.len(), calls.len()));
                    } else if calls[0] != *v {
                        o.violate("C12/streamed-request-handler-observed-different-value", format!("value #{i} sent as {} pieces: handler observed a different value", cuts.len() + 1));
                    }
                    match resp {
                        Ok(r) => {
                            let ok = r.status() == hyper::StatusCode::OK;
                            if ok != (v.fail_with == 0) {
                                o.violate("C12/streamed-request-wrong-outcome", format!("value #{i} sent as {} pieces (cuts {:?} of {} bytes): HTTP {} although the handler {}", cuts.len() + 1, cuts, frame.len(), r.status(), if v.fail_with == 0 { "succeeds" } else { "fails" }));
                            } else if ok {
                                let body = hyper::body::to_bytes(r.into_body()).await.unwrap_or_default();
                                match DataView::<Echo>::using(aligned(&body)).ok().and_then(|d| d.deserialize_view().ok()) {
                                    Some(r) => {
                                        let r: Echo = r;
                                        if r != *v {
                                            o.violate("C12/streamed-request-reply-differs", format!("value #{i}"));
                                        }
                                    },
                                    None => o.violate("C12/streamed-request-reply-unreadable", format!("value #{i}")),
                                }
                            }
                        },
                        Err(e) => o.violate("C12/streamed-request-broke-the-connection", format!("value #{i}: {e}")),
                    }
                }
                for (m, what) in &net_requests {
                    let before = seen.borrow().len();
                    let req = hyper::Request::builder().method("POST").uri(format!("http://{}{}", addr, uri_path())).body(hyper::Body::from(m.clone())).unwrap();
                    let resp = sender.send_request(req).await;
                    let mut o = net_out.borrow_mut();
                    o.fault("damaged_request_sent");
                    if seen.borrow().len() != before {
                        o.violate("C12/handler-ran-on-damaged-request", format!("request frame {what}: the handler was invoked"));
                    }
                    match resp {
                        Ok(r) => {
                            if r.status() == hyper::StatusCode::OK {
                                o.violate("C12/damaged-request-answered-ok", format!("request frame {what}: HTTP 200"));
                            } else {
                                let body = hyper::body::to_bytes(r.into_body()).await.unwrap_or_default();
                                match DataView::<Status>::using(aligned(&body)) {
                                    Ok(st) => {
                                        let st: Status = st.deserialize_view().unwrap_or_else(|_| Status::internal("?"));
                                        if st.code != ErrorCode::InvalidPayload {
                                            o.violate("C12/damaged-request-refused-with-wrong-error", format!("request frame {what}: {:?} {}", st.code, st.message));
                                        }
                                    },
                                    Err(_) => o.violate("C12/damaged-request-refusal-unreadable", format!("request frame {what}")),
                                }
                            }
                        },
                        Err(e) => o.violate("C12/damaged-request-broke-the-connection", format!("request frame {what}: {e}")),
                    }
                }
                // (3b) damaged replies: impostor on the same URI
                let (tx, rx) = tokio::sync::oneshot::channel();
                let _ = swap_tx.send((true, tx));
                let _ = rx.await;
                use_impostor.set(true);
                // (3d) valid replies streamed in pieces by the peer: the client must observe the value
                for (i, v) in values.iter().enumerate().take(6) {
                    let Ok(frame) = datacake_rpc::to_view_bytes(v).map(|b| b.to_vec()) else { continue };
                    let cuts = seeded_cuts(&mut crng, frame.len());
                    *impostor_reply.borrow_mut() = frame.clone();
                    *impostor_cuts.borrow_mut() = if cuts.is_empty() { vec![frame.len() / 2] } else { cuts.clone() };
                    let res = client.send(&values[0]).await;
                    let mut o = net_out.borrow_mut();
                    o.fault("valid_reply_streamed_in_pieces");
                    match res {
                        Ok(reply) => match reply.deserialize_view() {
                            Ok(r) => {
                                let r: Echo = r;
                                if r != *v {
                                    o.violate("C12/streamed-reply-client-observed-different-value", format!("value #{i} replied as {} pieces", cuts.len() + 1));
                                }
                            },
                            Err(_) => o.violate("C12/streamed-reply-not-deserialisable", format!("value #{i}")),
                        },
                        Err(st) => o.violate("C12/streamed-reply-refused", format!("value #{i} replied as {} pieces (cuts {:?} of {} bytes): {:?} {}", cuts.len() + 1, cuts, frame.len(), st.code, st.message)),
                    }
                }
                impostor_cuts.borrow_mut().clear();
                for (m, what) in &net_replies {
                    *impostor_reply.borrow_mut() = m.clone();
                    let res = client.send(&values[0]).await;
                    let mut o = net_out.borrow_mut();
                    o.fault("damaged_reply_sent");
                    match res {
                        Ok(_) => o.violate("C12/damaged-reply-accepted-by-client", format!("reply frame {what}: the client returned Ok")),
                        Err(st) if st.code == ErrorCode::InvalidPayload => {},
                        Err(st) => o.violate("C12/damaged-reply-refused-with-wrong-error", format!("reply frame {what}: {:?} {}", st.code, st.message)),
                    }
                }
                Ok(())
            });
        }
        let res = std::panic::catch_unwind(std::panic::AssertUnwindSafe(|| sim.run()));
        drop(sim);
        let panics = take_panics();
        for (loc, msg) in panics {
            out.violate(format!("C12/panic-while-handling-frames@{}", loc.trim_start_matches("/repo/").split('/').last().unwrap_or("?")), format!("{loc}: {msg}"));
        }
        match res {
            Ok(Ok(())) => {},
            Ok(Err(e)) => out.anomalies.push(format!("simulation ended with: {e}")),
            Err(_) => {},
        }
        let no = net_out.borrow().clone();
        for v in no.violations {
            out.violate(v.class, v.detail);
        }
        for (k, v) in no.faults {
            out.fault_n(&k, v);
        }
        for (k, v) in no.probes {
            out.probe_n(&k, v);
        }
        out.nontrivial = true;
        let mut f = Fnv::new();
        f.u64(sc.value_seed).u64(sc.max_blob as u64).u64(sc.values as u64);
        out.signature = f.finish();
        f.u64(out.violations.len() as u64).u64(seen.borrow().len() as u64);
        out.trace_hash = f.finish();
        out.state_fp = out.signature;
        out.sim_ms = 1000;
        out
    }
}
