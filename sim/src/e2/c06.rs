//! C06 — a successful write has reached the replicas its consistency level promises.

use std::collections::{BTreeMap, BTreeSet};

use rand::Rng;
use serde_json::Value;

use super::c01::*;
use super::*;
use crate::framework::*;

pub struct C06;

/// Number of *other* nodes that must hold the write for level `l`, given the issuer's view.
fn required(l: &str, view: &BTreeSet<u8>, me: u8, dc_of: &BTreeMap<u8, String>) -> usize {
    let n = view.len().max(1);
    let my_dc = dc_of.get(&me).cloned().unwrap_or_default();
    let mut per_dc: BTreeMap<String, usize> = BTreeMap::new();
    for v in view {
        *per_dc.entry(dc_of.get(v).cloned().unwrap_or_default()).or_insert(0) += 1;
    }
    match l {
        "None" => 0,
        "One" => 1,
        "Two" => 2,
        "Three" => 3,
        "Quorum" => n / 2,
        "LocalQuorum" => per_dc.get(&my_dc).copied().unwrap_or(1) / 2,
        "EachQuorum" => per_dc.iter().map(|(dc, c)| if *dc == my_dc { c / 2 } else { c / 2 + 1 }).sum(),
        "All" => n - 1,
        _ => 0,
    }
}

pub fn judge_levels(r: &mut RunResult) {
    if std::env::var_os("DCSIM_DEBUG").is_some() {
        for o in &r.ops {
            eprintln!("OP {:?}", o);
        }
        for (n, rows) in &r.final_rows {
            eprintln!("NODE {n} rows {:?}", rows.iter().map(|(k, (t, d))| (k.clone(), crate::e1::fmt_ts(*t), d.is_some())).collect::<Vec<_>>());
        }
    }
    let dc_of: BTreeMap<u8, String> = r.cfg.nodes.iter().map(|n| (n.id, n.dc.clone())).collect();
    let all: BTreeSet<u8> = r.cfg.nodes.iter().map(|n| n.id).collect();
    let mut oks = 0u64;
    let mut fails = 0u64;
    let all_ops = r.ops.clone();
    for op in r.ops.clone() {
        // two overlapping deletes of one id by one node cannot be told apart in the store log
        let (a0, a1) = (op.invoked_ms, op.returned_ms.unwrap_or(u64::MAX));
        let twin = op.spec.kind.starts_with("del")
            && all_ops.iter().any(|b| {
                b.op_id != op.op_id
                    && b.node == op.node
                    && b.spec.ks == op.spec.ks
                    && b.spec.ids.iter().any(|i| op.spec.ids.contains(i))
                    && b.invoked_ms <= a1
                    && (b.returned_ms.unwrap_or(u64::MAX) >= a0 || b.result.as_deref() == Some("cancelled"))
            });
        if twin {
            r.out.probe("overlapping_same_node_same_id_operations_skipped");
            continue;
        }
        let Some(res) = &op.result else {
            r.out.probe("operation_never_returned");
            continue;
        };
        // every view the issuer had from shortly before the call until it returned: the
        // selection may have used any of them, so the weakest requirement is the sound one
        let (t_inv, t_ret) = (op.invoked_ms, op.returned_ms.unwrap_or(u64::MAX));
        let hist = r.views_hist.get(&op.node).cloned().unwrap_or_default();
        let mut views: Vec<BTreeSet<u8>> = Vec::new();
        let before: Vec<&(u64, BTreeSet<u8>)> = hist.iter().filter(|(t, _)| *t + 200 <= t_inv).collect();
        if let Some((_, v)) = before.last() {
            views.push(v.clone());
        }
        for (t, v) in &hist {
            if *t + 200 > t_inv && *t <= t_ret {
                views.push(v.clone());
            }
        }
        if views.is_empty() {
            views.push(all.clone());
        }
        for v in views.iter_mut() {
            v.insert(op.node);
        }
        let need = views.iter().map(|v| required(&op.spec.level, v, op.node, &dc_of)).min().unwrap_or(0);
        let view = views.last().cloned().unwrap_or_default();
        let desc = format!("op#{} node {} {} {} ids {:?} level {}", op.op_id, op.node, op.spec.kind, op.spec.ks, op.spec.ids, op.spec.level);
        if op.ambiguous {
            r.out.probe("operation_timestamp_ambiguous_skipped");
            continue;
        }
        if op.ts.is_none() && op.superseded_locally && (res == "ok" || res.starts_with("consistency:")) {
            // the issuer already stored something for every id and the call changed nothing:
            // "the mutation or a newer one" is what is stored (e.g. a restarted node whose clock
            // is behind a tombstone written by a peer with a faster clock)
            r.out.probe("operation_superseded_on_issuer");
            continue;
        }
        if res == "ok" {
            oks += 1;
            let Some(_ts) = op.ts else {
                r.out.violate("C06/ok-but-local-write-missing", format!("{desc}: returned Ok but the issuer's store has no write of its own for those ids"));
                continue;
            };
            let have = op.holders_at_return.unwrap_or(0);
            if have < need {
                r.out.violate(
                    format!("C06/ok-with-fewer-replicas-than-level-requires/{}", op.spec.level),
                    format!("{desc}: returned Ok at {} ms; the level needs {need} other holder(s) in view {:?} but only {:?} held the mutation at that instant", op.returned_ms.unwrap_or(0), view, op.holder_ids_at_return),
                );
            }
            if need > 0 {
                r.out.probe("ok_with_replicas_checked");
            }
        } else if let Some(rest) = res.strip_prefix("consistency:") {
            fails += 1;
            r.out.fault("consistency_failure_returned");
            let mut it = rest.split('/');
            let responses: usize = it.next().and_then(|x| x.parse().ok()).unwrap_or(0);
            let selected: usize = it.next().and_then(|x| x.parse().ok()).unwrap_or(0);
            if op.ts.is_none() {
                r.out.violate("C06/consistency-error-but-local-write-missing", format!("{desc}: consistency error {rest} but the local write is not in the issuer's store"));
            }
            if responses >= selected {
                r.out.violate("C06/consistency-error-although-all-acknowledged", format!("{desc}: error states {responses} of {selected} responses"));
            }
            let have = op.holders_at_return.unwrap_or(0);
            if responses > have {
                r.out.violate(
                    "C06/consistency-error-overstates-acknowledgements",
                    format!("{desc}: error states {responses} acknowledgements but only {:?} other stores hold the mutation", op.holder_ids_at_return),
                );
            }
        } else if res.starts_with("not_enough_nodes") {
            let others = view.len().saturating_sub(1);
            let need_total = required(&op.spec.level, &view, op.node, &dc_of);
            if others >= need_total && op.spec.level != "None" {
                // selection is C15's subject; here it only matters that nothing was half-done
                r.out.probe("not_enough_nodes_with_enough_members_in_view");
            }
            if op.ts.is_some() {
                r.out.probe("not_enough_nodes_after_local_write");
            }
        } else if res == "storage" {
            r.out.probe("local_storage_error_returned");
        } else {
            r.out.probe("other_error_returned");
        }
    }
    r.out.probe_n("ok_results", oks);
    r.out.probe_n("consistency_failures", fails);
}

impl Check for C06 {
    fn id(&self) -> &'static str {
        "C06"
    }
    fn title(&self) -> &'static str {
        "A successful write has reached the replicas its consistency level promises"
    }
    fn engine(&self) -> &'static str {
        "E2 cluster engine (as C01); the oracle runs inside the issuing host at the instant the call returns, reading every node's SimStorage directly"
    }
    fn rule(&self) -> &'static str {
        "Cases: as C01 but 1-5 nodes, levels biased away from None, more refusing replicas (storage failures answer Status::internal), crashed or held peers, stale and partial membership views between selection (2 s cache) and send. Oracle at the instant put/put_many/del/del_many returns (same poll, no await in between): on Ok the issuer's store has its own write and at least required(level, issuer's view) distinct other stores hold that mutation or a newer one for every id; on ConsistencyFailure{responses, required} responses < required, responses <= number of other holders, and the local write is in place; after the closing exchanges every node holds it (C01 oracle, reported under C06). Non-trivial = at least one Ok at a level above None was checked and a fault fired. Distinct = as C01."
    }
    fn assumptions(&self) -> Vec<String> {
        vec![
            "required counts as in C15's table, computed over the membership view the issuer had when the call returned".into(),
            "a holder is any other node whose store holds the mutation or a newer one for every id of the call; a node that crashed after acknowledging still counts (its durable store is read)".into(),
        ]
    }
    fn components(&self) -> Vec<(&'static str, &'static str)> {
        cluster_components()
    }
    fn budget(&self, tier: Tier) -> Budget {
        match tier {
            Tier::Quick => Budget { wall_secs: 75, max_cases: 4_000, checkpoint_every: 1, workers: 16 },
            Tier::Thorough => Budget { wall_secs: 900, max_cases: 100_000, checkpoint_every: 1, workers: 16 },
        }
    }
    fn generate(&self, seed: u64, idx: u64, tier: Tier) -> Value {
        let mut rng = rng_from(case_seed(seed ^ 0xC06, idx));
        let deep = tier == Tier::Thorough && mix(0xDEE9, idx) % 3 == 0;
        // real-membership family (see C01): the view the level is counted against is what the
        // node's own membership layer reported around the call
        if mix(0xFA06, idx) % 8 == 5 {
            let mut sc = gen_real_scenario(&mut rng);
            for e in sc.events.iter_mut() {
                if let Ev::Op { spec, .. } = e {
                    if spec.level == "None" && rng.gen_bool(0.8) {
                        spec.level = ["One", "Two", "Quorum", "LocalQuorum", "All", "EachQuorum"][rng.gen_range(0..6)].to_string();
                    }
                }
            }
            return serde_json::to_value(sc).unwrap();
        }
        // thorough tier: a third of these cases are deeper (up to 8 nodes, 70 operations, 40 s)
        let k = if deep {
            GenKnobs { max_nodes: 8, max_ops: 70, span_ms: 40_000, level_bias_none: 0.08, ghosts: 0.0, big_bulk: 0.07 }
        } else {
            GenKnobs { max_nodes: 5, max_ops: 30, span_ms: 15_000, level_bias_none: 0.08, ghosts: 0.0, big_bulk: 0.07 }
        };
        let mut sc = gen_cluster_scenario(&mut rng, &k);
        // more refusing replicas
        for n in sc.cfg.nodes.iter_mut() {
            if rng.gen_bool(0.35) {
                for _ in 0..rng.gen_range(1..=3) {
                    n.storage_faults.push((rng.gen_range(1..30), rng.gen_range(0..3)));
                }
            }
        }
        serde_json::to_value(sc).unwrap()
    }
    fn isolate(&self, _scenario: &Value) -> bool {
        true
    }
    fn execute(&self, scenario: &Value) -> Outcome {
        let sc: Scenario = match serde_json::from_value(scenario.clone()) {
            Ok(s) => s,
            Err(e) => return Outcome::invalid(format!("bad scenario: {e}")),
        };
        match run_cluster(&sc, "C06") {
            Ok(mut r) => {
                judge_levels(&mut r);
                // "still replicated later": the closing exchanges must bring every node to LWW
                let mut conv = RunResult { out: Outcome::default(), ops: vec![], issued: r.issued.clone(), final_rows: r.final_rows.clone(), cfg: r.cfg.clone(), views_hist: Default::default(), set_store_diffs: Default::default(), membership_diffs: Default::default(), read_diffs: Default::default(), membership_stale: Default::default(), direct_misses: Default::default(), direct_departed: vec![], checkpoint_diffs: Default::default() };
                judge_convergence(&mut conv);
                for v in conv.out.violations {
                    r.out.violate(format!("C06/not-replicated-later/{}", v.class.trim_start_matches("C01/")), v.detail);
                }
                let checked = r.out.probes.get("ok_with_replicas_checked").copied().unwrap_or(0);
                let faults: u64 = r.out.faults.values().sum();
                r.out.nontrivial = checked > 0 && faults > 0;
                r.out
            },
            Err(e) => Outcome::invalid(e),
        }
    }
    fn shrink(&self, sc: &Value) -> Vec<Value> {
        // keep levels: lowering them to None would erase the property under test
        shrink_cluster(sc).into_iter().filter(|v| v["events"].as_array().map(|e| e.iter().filter(|x| x["ev"] == "op" && x["spec"]["level"] == "None").count()) == sc["events"].as_array().map(|e| e.iter().filter(|x| x["ev"] == "op" && x["spec"]["level"] == "None").count()) || v["events"].as_array().map(|a| a.len()) != sc["events"].as_array().map(|a| a.len())).collect()
    }
}
