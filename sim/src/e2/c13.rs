//! C13 — a message is served exactly when its service is currently registered.

use std::cell::RefCell;
use std::collections::BTreeSet;
use std::net::{IpAddr, Ipv4Addr, SocketAddr};
use std::rc::Rc;
use std::time::Duration;

use datacake_rpc::{Channel, ErrorCode, Handler, Request, RpcClient, RpcService, Server, ServiceRegistry, Status};
use rand::Rng;
use rand::SeedableRng;
use rkyv::{Archive, Deserialize, Serialize};
use serde_json::Value;

use crate::framework::*;

#[repr(C)]
#[derive(Serialize, Deserialize, Archive, PartialEq, Debug)]
#[archive(check_bytes)]
pub struct M1 {
    pub x: u64,
}

#[repr(C)]
#[derive(Serialize, Deserialize, Archive, PartialEq, Debug)]
#[archive(check_bytes)]
pub struct M2 {
    pub y: u32,
    pub s: String,
}

pub struct SvcA;
pub struct SvcB;
pub struct SvcC;
/// two service types that register under one and the same service name
pub struct SvcD1;
/// A service whose instance may carry a re-registration order: when the instance is dropped (which
/// happens inside `remove_service`, while the server forgets its handlers) a second OS thread
/// registers a fresh instance under the same name. The drop waits until that thread is about to
/// call `add_service` and a little longer, so the registration starts inside the removal.
pub struct SvcR {
    hook: Option<ReAdd>,
}
pub struct ReAdd {
    server: std::sync::Arc<Server>,
    done: std::sync::mpsc::Sender<()>,
}
impl Drop for SvcR {
    fn drop(&mut self) {
        if let Some(h) = self.hook.take() {
            let (started_tx, started_rx) = std::sync::mpsc::channel::<()>();
            std::thread::spawn(move || {
                let _ = started_tx.send(());
                h.server.add_service(SvcR { hook: None });
                let _ = h.done.send(());
            });
            let _ = started_rx.recv_timeout(Duration::from_secs(5));
            std::thread::sleep(Duration::from_millis(25));
        }
    }
}
impl RpcService for SvcR {
    fn service_name() -> &'static str {
        "re-store"
    }
    fn register_handlers(r: &mut ServiceRegistry<Self>) {
        r.add_handler::<M1>();
    }
}
#[datacake_rpc::async_trait]
impl Handler<M1> for SvcR {
    type Reply = u64;
    /// message path equal to the service's name
    fn path() -> &'static str {
        "re-store"
    }
    async fn on_message(&self, msg: Request<M1>) -> Result<u64, Status> {
        Ok(msg.x.value() + 5_000)
    }
}
pub struct SvcD2;

impl RpcService for SvcD1 {
    fn service_name() -> &'static str {
        "shared-name"
    }
    fn register_handlers(r: &mut ServiceRegistry<Self>) {
        r.add_handler::<M1>();
    }
}
impl RpcService for SvcD2 {
    fn service_name() -> &'static str {
        "shared-name"
    }
    fn register_handlers(r: &mut ServiceRegistry<Self>) {
        r.add_handler::<M2>();
    }
}
#[datacake_rpc::async_trait]
impl Handler<M1> for SvcD1 {
    type Reply = u64;
    /// message path equal to the service's name
    fn path() -> &'static str {
        "shared-name"
    }
    async fn on_message(&self, msg: Request<M1>) -> Result<u64, Status> {
        Ok(msg.x.value() + 4_000)
    }
}
#[datacake_rpc::async_trait]
impl Handler<M2> for SvcD2 {
    type Reply = u64;
    async fn on_message(&self, msg: Request<M2>) -> Result<u64, Status> {
        Ok(msg.y.value() as u64 + 4_500)
    }
}

// A's name is a strict prefix of B's, and a suffix of R's: removing one must not touch the others
impl RpcService for SvcA {
    fn service_name() -> &'static str {
        "store"
    }
    fn register_handlers(r: &mut ServiceRegistry<Self>) {
        r.add_handler::<M1>();
    }
}
impl RpcService for SvcB {
    fn service_name() -> &'static str {
        "store-admin"
    }
    fn register_handlers(r: &mut ServiceRegistry<Self>) {
        r.add_handler::<M1>();
        r.add_handler::<M2>();
    }
}
impl RpcService for SvcC {
    fn register_handlers(r: &mut ServiceRegistry<Self>) {
        r.add_handler::<M2>();
    }
}

#[datacake_rpc::async_trait]
impl Handler<M1> for SvcA {
    type Reply = u64;
    /// message path equal to the service's name
    fn path() -> &'static str {
        "store"
    }
    async fn on_message(&self, msg: Request<M1>) -> Result<u64, Status> {
        Ok(msg.x.value() + 1_000)
    }
}
#[datacake_rpc::async_trait]
impl Handler<M1> for SvcB {
    type Reply = u64;
    async fn on_message(&self, msg: Request<M1>) -> Result<u64, Status> {
        Ok(msg.x.value() + 2_000)
    }
}
#[datacake_rpc::async_trait]
impl Handler<M2> for SvcB {
    type Reply = u64;
    async fn on_message(&self, msg: Request<M2>) -> Result<u64, Status> {
        Ok(msg.y.value() as u64 + 2_500)
    }
}
#[datacake_rpc::async_trait]
impl Handler<M2> for SvcC {
    type Reply = u64;
    /// a message path of its own instead of the type name
    fn path() -> &'static str {
        "custom-path/m2"
    }
    async fn on_message(&self, msg: Request<M2>) -> Result<u64, Status> {
        Ok(msg.y.value() as u64 + 3_000)
    }
}

/// step alphabet: 0 add A, 1 add B, 2 add C, 3 remove A, 4 remove B, 5 remove C,
/// 6 add D1, 7 add D2 (both named "shared-name"), 8 remove "shared-name"
#[derive(serde::Serialize, serde::Deserialize, Clone, Debug)]
pub struct Scenario {
    pub events: Vec<u8>,
    pub net_seed: u64,
    /// issue the probes of each step concurrently instead of one after the other
    pub concurrent_probes: bool,
}

pub struct C13;

const PORT: u16 = 9100;
const ALPHABET: u64 = 9;
/// steps 9..=11 exist in seeded histories only: 9 add R, 10 remove R, 11 register an R instance that
/// carries a re-registration order and remove it at once (see `SvcR`)
const STEPS: u8 = 12;
const STEP_NAMES: [&str; 12] = ["+A ", "+B ", "+C ", "-A ", "-B ", "-C ", "+D1 ", "+D2 ", "-D ", "+R ", "-R ", "-R(re-added from the drop of its instance) "];

enum Ctl {
    Step(u8, tokio::sync::oneshot::Sender<()>),
}

fn enum_total(len: usize) -> u64 {
    (0..=len as u32).map(|l| ALPHABET.pow(l)).sum()
}

/// idx-th sequence in length-lexicographic order over the 6-symbol alphabet
fn nth_sequence(mut idx: u64) -> Vec<u8> {
    let mut len = 0u32;
    loop {
        let c = ALPHABET.pow(len);
        if idx < c {
            break;
        }
        idx -= c;
        len += 1;
    }
    let mut v = vec![0u8; len as usize];
    for i in (0..len as usize).rev() {
        v[i] = (idx % ALPHABET) as u8;
        idx /= ALPHABET;
    }
    v
}

impl Check for C13 {
    fn id(&self) -> &'static str {
        "C13"
    }
    fn title(&self) -> &'static str {
        "A message is served exactly when its service is currently registered"
    }
    fn level(&self) -> &'static str {
        "fault_enumeration"
    }
    fn engine(&self) -> &'static str {
        "E2: one server host (real datacake-rpc Server over simulated TCP/HTTP2) and one client host (real RpcClient); services A{M1} (named \"store\"), B{M1,M2} (\"store-admin\": A's name is a strict prefix), C{M2} (default name), R (\"re-store\") are added and removed on the running server; A, D1 and R give their message the service's own name as its path"
    }
    fn rule(&self) -> &'static str {
        "Cases: every add/remove history over the alphabet {add A, add B, add C, remove A, remove B, remove C, add D1, add D2, remove \"shared-name\"} (D1 and D2 are two service types registered under one name with different messages) over that 9-step alphabet up to length 4 (7 381 histories, quick) or 5 (66 430, thorough), enumerated completely, plus seeded histories of length 6-14; one seeded history in four also adds and removes a service R, and once removes an R instance whose drop (which runs inside remove_service) has a second OS thread register a fresh R - the registration starts inside the removal, the step ends when both calls returned, R is then registered and a later plain removal must unregister it. After every step the client sends all seven (service, message) pairs - A/M1, B/M1, B/M2, C/M2 (whose handler overrides the message path; sent by value with send_owned on odd steps), shared-name/M1, shared-name/M2, R/M1 - sequentially or concurrently. Oracle: a pair is answered by its own handler (reply identifies the service) iff its service was added and not removed since, otherwise refused with ServiceUnavailable; removing one service never changes the answer of another. Non-trivial = the history contains a removal while another service is registered. Distinct = the history itself."
    }
    fn assumptions(&self) -> Vec<String> {
        vec!["registry changes and probes are sequenced (a probe is sent after the step completed); in-flight probes during a change are sent too but only required not to panic or hang".into(), "re-registration arm: the registration runs on one real second OS thread; it is started from the drop of the removed instance (inside remove_service), the drop returns 25 ms of real time after that thread announced its call, and the step ends when both calls returned. Whichever of the two calls finishes last, the unchanged registry ends up with R registered, so the verdict does not depend on that timing; a registry that loses the race differently is detected when the timing holds, which it does unless the machine stalls the second thread for 25 ms".into()]
    }
    fn components(&self) -> Vec<(&'static str, &'static str)> {
        vec![("datacake-rpc Server / ServerState / ServiceRegistry / RpcClient / framing, hyper HTTP/2", "real"), ("TCP", "simulated (turmoil)")]
    }
    fn budget(&self, tier: Tier) -> Budget {
        match tier {
            Tier::Quick => Budget { wall_secs: 60, max_cases: enum_total(4) + 300, checkpoint_every: 8, workers: 16 },
            Tier::Thorough => Budget { wall_secs: 600, max_cases: enum_total(5) + 20_000, checkpoint_every: 8, workers: 16 },
        }
    }
    fn total_cases(&self, tier: Tier) -> Option<u64> {
        Some(self.budget(tier).max_cases)
    }
    fn generate(&self, seed: u64, idx: u64, tier: Tier) -> Value {
        let e = enum_total(if tier == Tier::Quick { 4 } else { 5 });
        if idx < e {
            return serde_json::to_value(Scenario { events: nth_sequence(idx), net_seed: 1, concurrent_probes: false }).unwrap();
        }
        let mut rng = rng_from(case_seed(seed, idx));
        let n = rng.gen_range(6..=14);
        let mut events: Vec<u8> = (0..n).map(|_| rng.gen_range(0..ALPHABET as u8)).collect();
        if rng.gen_bool(0.25) {
            // re-registration arm: R is added and removed among the other steps; one removal is of
            // an instance that registers a successor from its drop, and a plain removal follows it
            for _ in 0..rng.gen_range(1..=3) {
                let at = rng.gen_range(0..=events.len());
                events.insert(at, rng.gen_range(9..=10));
            }
            let at = rng.gen_range(0..=events.len());
            events.insert(at, 11);
            let at2 = rng.gen_range(at + 1..=events.len());
            events.insert(at2, 10);
        }
        serde_json::to_value(Scenario { events, net_seed: rng.gen(), concurrent_probes: rng.gen_bool(0.5) }).unwrap()
    }
    fn isolate(&self, _scenario: &Value) -> bool {
        true
    }
    fn execute(&self, scenario: &Value) -> Outcome {
        let sc: Scenario = match serde_json::from_value(scenario.clone()) {
            Ok(s) => s,
            Err(e) => return Outcome::invalid(format!("bad scenario: {e}")),
        };
        if sc.events.iter().any(|s| *s >= STEPS) {
            return Outcome::invalid("bad step");
        }
        let out = Rc::new(RefCell::new(Outcome::default()));
        let mut sim = turmoil::Builder::new()
            .simulation_duration(Duration::from_secs(600))
            .tick_duration(Duration::from_millis(1))
            .min_message_latency(Duration::from_millis(1))
            .max_message_latency(Duration::from_millis(3))
            .build_with_rng(Box::new(rand::rngs::SmallRng::seed_from_u64(sc.net_seed)));
        let (ctl_tx, ctl_rx) = tokio::sync::mpsc::unbounded_channel::<Ctl>();
        let ctl_rx = Rc::new(RefCell::new(Some(ctl_rx)));
        sim.host("server", move || {
            let ctl_rx = ctl_rx.clone();
            async move {
                let server = std::sync::Arc::new(Server::listen((IpAddr::from(Ipv4Addr::UNSPECIFIED), PORT).into()).await?);
                let mut rx = ctl_rx.borrow_mut().take().expect("server host started twice");
                while let Some(Ctl::Step(s, done)) = rx.recv().await {
                    match s {
                        0 => server.add_service(SvcA),
                        1 => server.add_service(SvcB),
                        2 => server.add_service(SvcC),
                        3 => server.remove_service(SvcA::service_name()),
                        4 => server.remove_service(SvcB::service_name()),
                        5 => server.remove_service(SvcC::service_name()),
                        6 => server.add_service(SvcD1),
                        7 => server.add_service(SvcD2),
                        8 => server.remove_service("shared-name"),
                        9 => server.add_service(SvcR { hook: None }),
                        10 => server.remove_service(SvcR::service_name()),
                        _ => {
                            let (done_tx, done_rx) = std::sync::mpsc::channel::<()>();
                            server.add_service(SvcR { hook: Some(ReAdd { server: server.clone(), done: done_tx }) });
                            server.remove_service(SvcR::service_name());
                            // the registration started by the drop has returned before the step counts as done
                            let _ = done_rx.recv_timeout(Duration::from_secs(20));
                        },
                    }
                    let _ = done.send(());
                }
                std::future::pending::<()>().await;
                Ok(())
            }
        });
        let steps = sc.events.clone();
        let o2 = out.clone();
        let concurrent = sc.concurrent_probes;
        sim.client("client", async move {
            let addr: SocketAddr = (turmoil::lookup("server"), PORT).into();
            let chan = Channel::connect(addr);
            // model: the set of (service, message) pairs currently registered
            // 0=A/M1 1=B/M1 2=B/M2 3=C/M2 4=shared/M1 (D1) 5=shared/M2 (D2)
            let mut reg: BTreeSet<u8> = BTreeSet::new();
            let mut hist = String::new();
            for (i, s) in steps.iter().enumerate() {
                let (tx, rx) = tokio::sync::oneshot::channel();
                let _ = ctl_tx.send(Ctl::Step(*s, tx));
                let _ = rx.await;
                match *s {
                    0 => {
                        reg.insert(0);
                    },
                    1 => {
                        reg.insert(1);
                        reg.insert(2);
                    },
                    2 => {
                        reg.insert(3);
                    },
                    3 => {
                        reg.remove(&0);
                    },
                    4 => {
                        reg.remove(&1);
                        reg.remove(&2);
                    },
                    5 => {
                        reg.remove(&3);
                    },
                    6 => {
                        reg.insert(4);
                    },
                    7 => {
                        reg.insert(5);
                    },
                    8 => {
                        reg.remove(&4);
                        reg.remove(&5);
                    },
                    9 | 11 => {
                        reg.insert(6);
                    },
                    _ => {
                        reg.remove(&6);
                    },
                }
                hist.push_str(STEP_NAMES[*s as usize]);
                let ca = RpcClient::<SvcA>::new(chan.clone());
                let cb = RpcClient::<SvcB>::new(chan.clone());
                let cc = RpcClient::<SvcC>::new(chan.clone());
                let cd1 = RpcClient::<SvcD1>::new(chan.clone());
                let cd2 = RpcClient::<SvcD2>::new(chan.clone());
                let cr = RpcClient::<SvcR>::new(chan.clone());
                let m1 = M1 { x: i as u64 };
                let m2 = M2 { y: i as u32, s: "probe".into() };
                let conv = |r: Result<datacake_rpc::DataView<u64>, Status>| -> Result<u64, (ErrorCode, String)> { r.map(|v| v.value()).map_err(|e| (e.code, e.message)) };
                // C/M2 (custom message path) goes out by value on odd steps (send_owned, the call
                // streaming bodies have to use), by reference on even ones
                let owned = i % 2 == 1;
                let m2c = M2 { y: i as u32, s: "probe".into() };
                let results: Vec<(&str, u8, u64, Result<u64, (ErrorCode, String)>)> = if concurrent {
                    let c_m2 = async {
                        if owned {
                            cc.send_owned(m2c).await
                        } else {
                            cc.send(&m2).await
                        }
                    };
                    let (a, b, c, d, e, f, g) = tokio::join!(ca.send(&m1), cb.send(&m1), cb.send(&m2), c_m2, cd1.send(&m1), cd2.send(&m2), cr.send(&m1));
                    vec![
                        ("A/M1", 0, i as u64 + 1_000, conv(a)),
                        ("B/M1", 1, i as u64 + 2_000, conv(b)),
                        ("B/M2", 2, i as u64 + 2_500, conv(c)),
                        ("C/M2", 3, i as u64 + 3_000, conv(d)),
                        ("shared-name/M1", 4, i as u64 + 4_000, conv(e)),
                        ("shared-name/M2", 5, i as u64 + 4_500, conv(f)),
                        ("R/M1", 6, i as u64 + 5_000, conv(g)),
                    ]
                } else {
                    vec![
                        ("A/M1", 0, i as u64 + 1_000, conv(ca.send(&m1).await)),
                        ("B/M1", 1, i as u64 + 2_000, conv(cb.send(&m1).await)),
                        ("B/M2", 2, i as u64 + 2_500, conv(cb.send(&m2).await)),
                        ("C/M2", 3, i as u64 + 3_000, conv(if owned { cc.send_owned(m2c).await } else { cc.send(&m2).await })),
                        ("shared-name/M1", 4, i as u64 + 4_000, conv(cd1.send(&m1).await)),
                        ("shared-name/M2", 5, i as u64 + 4_500, conv(cd2.send(&m2).await)),
                        ("R/M1", 6, i as u64 + 5_000, conv(cr.send(&m1).await)),
                    ]
                };
                let mut o = o2.borrow_mut();
                for (name, svc, want, got) in results {
                    let registered = reg.contains(&svc);
                    match (&got, registered) {
                        (Ok(v), true) if *v == want => {},
                        (Ok(v), true) => o.violate("C13/answered-by-the-wrong-handler", format!("history {hist}: {name} answered {v}, its own handler would answer {want}")),
                        (Ok(v), false) => o.violate(
                            "C13/removed-or-never-added-service-still-served",
                            format!("history {hist}: {name} was answered ({v}) although its service is not registered (registered pairs: {:?})", reg),
                        ),
                        (Err((ErrorCode::ServiceUnavailable, _)), false) => {},
                        (Err((code, msg)), false) => o.violate("C13/unregistered-service-refused-with-wrong-error", format!("history {hist}: {name} -> {:?} {msg}", code)),
                        (Err((code, msg)), true) => o.violate(
                            "C13/registered-service-refused",
                            format!("history {hist}: {name} refused with {:?} ({msg}) although its service is registered (registered pairs: {:?})", code, reg),
                        ),
                    }
                }
            }
            Ok(())
        });
        let res = sim.run();
        drop(sim);
        let mut o = out.borrow().clone();
        if let Err(e) = res {
            o.anomalies.push(format!("simulation ended with: {e}"));
        }
        let removal_with_other = {
            let svc_of = |s: u8| -> u8 { match s { 0 | 3 => 0, 1 | 4 => 1, 2 | 5 => 2, 9..=11 => 4, _ => 3 } };
            let mut reg: BTreeSet<u8> = BTreeSet::new();
            let mut yes = false;
            for s in &sc.events {
                let is_remove = matches!(*s, 3 | 4 | 5 | 8 | 10);
                if is_remove && reg.iter().any(|r| *r != svc_of(*s)) {
                    yes = true;
                }
                if is_remove {
                    reg.remove(&svc_of(*s));
                } else {
                    reg.insert(svc_of(*s));
                }
            }
            yes
        };
        o.nontrivial = removal_with_other;
        o.fault_n("service_removed_while_others_registered", removal_with_other as u64);
        o.fault_n("service_re_registered_from_a_second_thread_during_its_removal", sc.events.iter().filter(|s| **s == 11).count() as u64);
        let mut f = Fnv::new();
        for s in &sc.events {
            f.u64(*s as u64);
        }
        f.u64(sc.concurrent_probes as u64);
        o.signature = f.finish();
        let mut t = f.clone();
        t.u64(o.violations.len() as u64);
        o.trace_hash = t.finish();
        o.state_fp = o.signature;
        o.sim_ms = sc.events.len() as u64 * 20;
        o
    }
}
