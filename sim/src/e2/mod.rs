//! E2 — cluster engine: every node is a turmoil host running the complete store (RPC server,
//! clock, selector, membership watcher, keyspace actors, distributor, poller, purge task, both
//! services) on its own paused runtime; the harness owns time, the network, storage (outside
//! the hosts, so it survives crashes), membership snapshots, wall-clock skew and the fault events.

pub mod c01;
pub mod c06;
pub mod c12;
pub mod c13;
pub mod c14;
pub mod c19;

use std::cell::RefCell;
use std::collections::{BTreeMap, BTreeSet};
use std::net::{IpAddr, Ipv4Addr, SocketAddr};
use std::rc::Rc;
use std::time::Duration;

use datacake_crdt::{HLCTimestamp, DATACAKE_EPOCH};
use datacake_eventual_consistency::verif as ecv;
use datacake_eventual_consistency::{EventuallyConsistentStore, ReplicatedStoreHandle};
use datacake_node::verif as nv;
use datacake_node::{Clock, ClusterMember, ClusterStatistics, Consistency, DCAwareSelector, MembershipChange, RpcNetwork};
use rand::SeedableRng;
use serde::{Deserialize, Serialize};
use tokio::sync::{mpsc, watch};
use tokio_stream::wrappers::WatchStream;

use crate::e1::{FaultKind, Row, SimStorage};
use crate::framework::*;

pub const PORT: u16 = 9000;

pub fn host_name(id: u8) -> String {
    format!("n{id}")
}

/// every node id has a second host (another IP address) it can move to
pub fn alt_host_name(id: u8) -> String {
    format!("n{id}x")
}

#[derive(Serialize, Deserialize, Clone, Debug)]
pub struct NodeCfg {
    pub id: u8,
    pub dc: String,
    /// wall clock offset in ms
    #[serde(default)]
    pub skew_ms: i64,
    /// (mutating storage call number, k) faults
    #[serde(default)]
    pub storage_faults: Vec<(u64, u32)>,
    #[serde(default)]
    pub storage_latency_max_ms: u64,
    /// latency of the scans a start-up performs (keyspace list, metadata), virtual ms
    #[serde(default)]
    pub storage_scan_latency_max_ms: u64,
    /// document reads (get / multi_get, numbered from 1 per node) that fail: a peer's fetch of
    /// documents during repair is answered with an error
    #[serde(default)]
    pub storage_read_faults: Vec<u64>,
    /// the store's `remove_tombstones` removes whatever row a key names (as SQLite's does)
    #[serde(default)]
    pub blunt_removal: bool,
    /// which of the store's non-empty `remove_tombstones` calls (1-based) fail having removed nothing
    #[serde(default)]
    pub removal_faults: Vec<u64>,
}

#[derive(Serialize, Deserialize, Clone, Debug)]
pub struct ClusterCfg {
    pub nodes: Vec<NodeCfg>,
    pub tick_ms: u64,
    pub latency_ms: (u64, u64),
    pub net_seed: u64,
    /// datacake ms at simulation start
    pub base_ms: u64,
    /// background repair interval in ms (large = effectively off)
    pub repair_interval_ms: u64,
    /// cooperative delay sites that are switched on, with the max delay in ms
    #[serde(default)]
    pub jitter_sites: Vec<(String, u64)>,
    #[serde(default)]
    pub hook_seed: u64,
    /// every node is built with the public API alone (DatacakeNodeBuilder::connect + the store
    /// extension): membership comes from the real gossip layer instead of harness views
    #[serde(default)]
    pub real_membership: bool,
    /// (node, keyspace, count): the node's store holds `count` documents before anything starts
    /// (written by that node, a few ms apart) - a node with history that others join
    #[serde(default)]
    pub prefill: Option<(u8, String, u64)>,
}

#[derive(Serialize, Deserialize, Clone, Debug)]
pub struct OpSpec {
    /// "put" | "put_many" | "del" | "del_many"
    pub kind: String,
    pub ks: String,
    pub ids: Vec<u64>,
    pub level: String,
    /// put_many only: the call names ids[0] a second time, last, with different bytes
    #[serde(default)]
    pub dup: bool,
    /// puts only: the document values are empty (zero bytes)
    #[serde(default)]
    pub empty: bool,
}

/// Commands handed to the in-host driver task.
#[derive(Clone, Debug)]
pub enum Cmd {
    Op { op_id: usize, spec: OpSpec },
    Repair { rep_id: usize, peer: u8 },
    /// compare the node's in-memory sets with its store (C02's oracle, inside the cluster)
    Snapshot { snap_id: usize },
    /// re-send an earlier mutation as a fresh direct replication message (duplicate / late / reordered)
    Replay { ks: String, id: u64, ts: HLCTimestamp, data: Option<Vec<u8>>, origin: u8, fresh: bool },
}

#[derive(Clone, Debug)]
pub struct OpRecord {
    pub op_id: usize,
    pub node: u8,
    pub spec: OpSpec,
    pub invoked_ms: u64,
    pub returned_ms: Option<u64>,
    /// "ok" | "consistency:<responses>/<required>" | "not_enough_nodes" | "storage" | "other:<..>"
    pub result: Option<String>,
    /// timestamp of the operation (read from the issuer's store right after the call returned)
    pub ts: Option<HLCTimestamp>,
    /// for each id: number of *other* nodes whose store held this mutation (or a newer one for
    /// the id) at the instant the call returned
    pub holders_at_return: Option<usize>,
    pub holder_ids_at_return: Vec<u8>,
    pub view_at_return: Vec<u8>,
    /// the issuer's store had no write of its own for this call, but holds some row for every id
    /// (the call was a no-op because something newer was already stored)
    pub superseded_locally: bool,
    /// more than one own write matches this call (concurrent identical deletes): timestamp unknown
    pub ambiguous: bool,
    /// the call returned, its window holds no write of the issuer's own, and some id's row on the
    /// issuer is OLDER than the lowest reading the issuer's wall clock had during the call: the
    /// operation's timestamp (never below the wall clock) beat that row, yet nothing was written.
    /// Carries (id, lowest wall-clock reading in datacake ms) per such id.
    pub lost_on_issuer: Vec<(u64, u64)>,
    /// length of the issuer's storage call log when the call was invoked ...
    pub calls_at_invoke: usize,
    /// ... and when it returned, or when the issuer's host was stopped with the call in flight
    pub calls_end: Option<usize>,
}

#[derive(Clone, Debug)]
pub struct RepairRecord {
    pub rep_id: usize,
    pub node: u8,
    pub peer: u8,
    pub result: Option<Result<Vec<String>, String>>,
}

/// Everything that lives outside the simulated hosts.
pub struct Shared {
    pub cfg: ClusterCfg,
    pub stores: BTreeMap<u8, SimStorage>,
    pub cmd_tx: BTreeMap<u8, mpsc::UnboundedSender<Cmd>>,
    pub member_tx: BTreeMap<u8, watch::Sender<nv::NodeMembership>>,
    pub addrs: BTreeMap<u8, SocketAddr>,
    pub ops: Vec<OpRecord>,
    pub repairs: Vec<RepairRecord>,
    pub boots: BTreeMap<u8, u32>,
    /// current membership view handed to each node (ids)
    pub views: BTreeMap<u8, BTreeSet<u8>>,
    /// (sim ms, view) history per node, for oracles that must tolerate in-flight view changes
    pub views_hist: BTreeMap<u8, Vec<(u64, BTreeSet<u8>)>>,
    pub log: Fnv,
    pub replays_sent: u64,
    pub replay_errors: u64,
    /// (snap id, node) -> set/store disagreements found (empty = agree)
    pub snapshots: BTreeMap<(usize, u8), Vec<String>>,
    /// (snap id, node) -> where reads through the store handle differ from the node's store rows
    pub read_diffs: BTreeMap<(usize, u8), Vec<String>>,
    pub up: BTreeSet<u8>,
    /// host each node id currently runs on (a node can move to its alternative address)
    pub cur_host: BTreeMap<u8, String>,
    /// real-membership mode: the membership layer's own view per node
    pub member_rx: BTreeMap<u8, watch::Receiver<nv::NodeMembership>>,
    /// real-membership mode: what a subscriber of membership_changes() has added up per node
    pub subscribed: BTreeMap<u8, BTreeMap<u8, SocketAddr>>,
    /// real-membership mode: deltas the subscriber was handed (count)
    pub deltas_seen: u64,
    /// documents put into a store before the start (they count as issued operations)
    pub prefilled: Vec<Issued>,
    /// per node: (ghost id, node whose address it has) pairs its views currently also name
    pub ghosts: BTreeMap<u8, Vec<(u8, u8)>>,
    /// per node: the caller of the node's next operation gives up after this many ms (the future
    /// of put/put_many/del/del_many is dropped at whatever await point it has reached)
    pub cancel_next: BTreeMap<u8, (u64, Option<u32>)>,
    /// per node: number of wall-clock jumps applied so far
    pub clock_jump_count: BTreeMap<u8, u32>,
    /// per node: the data centre views name it with from now on (instead of the configured one)
    pub dc_override: BTreeMap<u8, String>,
}

pub type SharedRef = Rc<RefCell<Shared>>;

pub fn level_of(s: &str) -> Consistency {
    crate::e1::c15::level_of(s).unwrap_or(Consistency::None)
}

fn value_for(node: u8, op_id: usize, id: u64) -> Vec<u8> {
    format!("n{node}:op{op_id}:id{id}").into_bytes()
}

fn payload_for(spec: &OpSpec, node: u8, op_id: usize, id: u64) -> Vec<u8> {
    if spec.empty {
        Vec::new()
    } else {
        value_for(node, op_id, id)
    }
}

/// Newest row per id in `ks` of a store.
fn row_of(store: &SimStorage, ks: &str, id: u64) -> Option<Row> {
    store.st.lock().rows.get(ks).and_then(|m| m.get(&id)).cloned()
}

pub struct Cluster<'a> {
    pub sim: turmoil::Sim<'a>,
    pub shared: SharedRef,
    /// scheduled wall-clock jumps per node (ms), read by the injected clock
    pub clock_jumps: Rc<RefCell<BTreeMap<u8, i64>>>,
}

impl<'a> Cluster<'a> {
    pub fn new(cfg: ClusterCfg) -> Cluster<'a> {
        let mut b = turmoil::Builder::new();
        b.simulation_duration(Duration::from_secs(100_000))
            .tick_duration(Duration::from_millis(cfg.tick_ms.max(1)))
            .min_message_latency(Duration::from_millis(cfg.latency_ms.0))
            .max_message_latency(Duration::from_millis(cfg.latency_ms.1.max(cfg.latency_ms.0)));
        let mut sim = b.build_with_rng(Box::new(rand::rngs::SmallRng::seed_from_u64(cfg.net_seed)));
        let mut stores = BTreeMap::new();
        for n in &cfg.nodes {
            let s = SimStorage::default();
            {
                let mut st = s.st.lock();
                st.faults = n.storage_faults.iter().map(|(c, k)| (*c, FaultKind::FailAfter(*k))).collect();
                st.latency_max_ms = n.storage_latency_max_ms;
                st.scan_latency_max_ms = n.storage_scan_latency_max_ms;
                st.read_faults = n.storage_read_faults.iter().copied().collect();
                st.latency_seed = mix(cfg.net_seed, n.id as u64);
                st.blunt_removal = n.blunt_removal;
                st.removal_faults = n.removal_faults.iter().copied().collect();
            }
            stores.insert(n.id, s);
        }
        let shared = Rc::new(RefCell::new(Shared {
            cfg: cfg.clone(),
            stores,
            cmd_tx: BTreeMap::new(),
            member_tx: BTreeMap::new(),
            addrs: BTreeMap::new(),
            ops: Vec::new(),
            repairs: Vec::new(),
            boots: BTreeMap::new(),
            views: BTreeMap::new(),
            views_hist: BTreeMap::new(),
            log: Fnv::new(),
            replays_sent: 0,
            replay_errors: 0,
            snapshots: BTreeMap::new(),
            read_diffs: BTreeMap::new(),
            up: BTreeSet::new(),
            cur_host: cfg.nodes.iter().map(|n| (n.id, host_name(n.id))).collect(),
            member_rx: BTreeMap::new(),
            subscribed: BTreeMap::new(),
            deltas_seen: 0,
            prefilled: Vec::new(),
            ghosts: BTreeMap::new(),
            cancel_next: BTreeMap::new(),
            clock_jump_count: BTreeMap::new(),
            dc_override: BTreeMap::new(),
        }));
        if let Some((node, ks, count)) = cfg.prefill.clone() {
            let mut sh = shared.borrow_mut();
            let mut filled = Vec::with_capacity(count as usize);
            if let Some(st) = sh.stores.get(&node) {
                let mut st = st.st.lock();
                if !st.keyspaces.contains(&ks) {
                    st.keyspaces.push(ks.clone());
                }
                let rows = st.rows.entry(ks.clone()).or_default();
                // well inside the forgiveness window before the start
                let start = cfg.base_ms.saturating_sub(600_000) / 4 * 4;
                for j in 0..count {
                    let ts = HLCTimestamp::new(Duration::from_millis(start + 4 * (j % 100_000)), (j / 100_000) as u16, node);
                    let data = format!("pre{j}").into_bytes();
                    rows.insert(j, Row { ts, data: Some(data.clone()) });
                    filled.push(Issued { ks: ks.clone(), id: j, ts, data: Some(data) });
                }
            }
            sh.prefilled = filled;
        }
        if cfg.real_membership {
            chitchat::verif::set_seed(cfg.net_seed ^ 0xC41C);
        }
        // wall clock: base + host elapsed + per-node skew + scheduled jumps
        let clock_jumps: Rc<RefCell<BTreeMap<u8, i64>>> = Rc::new(RefCell::new(BTreeMap::new()));
        {
            let jumps = clock_jumps.clone();
            let base = cfg.base_ms;
            let skews: BTreeMap<u8, i64> = cfg.nodes.iter().map(|n| (n.id, n.skew_ms)).collect();
            datacake_crdt::verif::set_wall_clock(Some(Box::new(move |node| {
                let el = turmoil::elapsed().as_millis() as i64;
                let jump = jumps.borrow().get(&node).copied().unwrap_or(0);
                let ms = base as i64 + el + skews.get(&node).copied().unwrap_or(0) + jump;
                DATACAKE_EPOCH + Duration::from_millis(ms.max(0) as u64)
            })));
        }
        datacake_crdt::verif::seed_rng(Some(cfg.hook_seed | 1));
        if !cfg.jitter_sites.is_empty() {
            let sites: BTreeMap<String, u64> = cfg.jitter_sites.iter().cloned().collect();
            let ctr = Rc::new(std::cell::Cell::new(0u64));
            let seed = cfg.hook_seed;
            datacake_crdt::verif::set_jitter(Some(Box::new(move |site| {
                let max = *sites.get(site)?;
                ctr.set(ctr.get() + 1);
                let d = mix(seed, ctr.get()) % (max + 1);
                if std::env::var_os("DCSIM_DEBUG_JITTER").is_some() {
                    eprintln!("jitter {site} #{} -> {d} at {:?}", ctr.get(), turmoil::elapsed());
                }
                if d == 0 {
                    None
                } else {
                    Some(Duration::from_millis(d))
                }
            })));
        }
        for n in &cfg.nodes {
            for host in [host_name(n.id), alt_host_name(n.id)] {
                let sh = shared.clone();
                let ncfg = n.clone();
                let all: Vec<NodeCfg> = cfg.nodes.clone();
                let repair_ms = cfg.repair_interval_ms;
                let h2 = host.clone();
                sim.host(host.clone(), move || {
                    let sh = sh.clone();
                    let ncfg = ncfg.clone();
                    let all = all.clone();
                    let host = h2.clone();
                    async move {
                        tokio::task::yield_now().await;
                        node_main(sh, ncfg, all, repair_ms, host).await
                    }
                });
            }
            // the alternative address is dark until the node moves there
            sim.crash(alt_host_name(n.id));
        }
        // every node's address is known up front
        for n in &cfg.nodes {
            let ip = sim.lookup(host_name(n.id));
            shared.borrow_mut().addrs.insert(n.id, SocketAddr::new(ip, PORT));
        }
        Cluster { sim, shared, clock_jumps }
    }

    pub fn elapsed_ms(&self) -> u64 {
        self.sim.elapsed().as_millis() as u64
    }

    /// Steps the simulation until `t_ms`; Err if a host failed.
    pub fn run_until(&mut self, t_ms: u64) -> Result<(), String> {
        while self.elapsed_ms() < t_ms {
            self.sim.step().map_err(|e| e.to_string())?;
        }
        Ok(())
    }

    pub fn send_cmd(&self, node: u8, cmd: Cmd) -> bool {
        let sh = self.shared.borrow();
        match sh.cmd_tx.get(&node) {
            Some(tx) if sh.up.contains(&node) => tx.send(cmd).is_ok(),
            _ => false,
        }
    }

    /// Installs a membership view (set of node ids, the node itself is always included).
    pub fn set_view(&self, node: u8, members: &BTreeSet<u8>) {
        let mut sh = self.shared.borrow_mut();
        let mut m = nv::NodeMembership::new();
        let cfgs: Vec<NodeCfg> = sh.cfg.nodes.clone();
        for n in &cfgs {
            if n.id == node || members.contains(&n.id) {
                if let Some(a) = sh.addrs.get(&n.id) {
                    let dc = sh.dc_override.get(&n.id).cloned().unwrap_or_else(|| n.dc.clone());
                    m.insert(n.id, ClusterMember::new(n.id, *a, dc));
                }
            }
        }
        for (g, at) in sh.ghosts.get(&node).cloned().unwrap_or_default() {
            if let (Some(a), Some(n)) = (sh.addrs.get(&at), cfgs.iter().find(|n| n.id == at)) {
                m.insert(g, ClusterMember::new(g, *a, n.dc.clone()));
            }
        }
        let mut v = members.clone();
        v.insert(node);
        let now = self.sim.elapsed().as_millis() as u64;
        sh.views_hist.entry(node).or_default().push((now, v.clone()));
        sh.views.insert(node, v);
        if let Some(tx) = sh.member_tx.get(&node) {
            let _ = tx.send(m);
        }
    }

    pub fn host_of(&self, node: u8) -> String {
        self.shared.borrow().cur_host.get(&node).cloned().unwrap_or_else(|| host_name(node))
    }

    pub fn crash(&mut self, node: u8) {
        {
            // calls in flight on this node end here: what they wrote so far is all they wrote
            let mut sh = self.shared.borrow_mut();
            let len = sh.stores.get(&node).map(|s| s.st.lock().calls.len()).unwrap_or(0);
            for o in sh.ops.iter_mut().filter(|o| o.node == node && o.calls_end.is_none()) {
                o.calls_end = Some(len);
            }
        }
        self.shared.borrow_mut().up.remove(&node);
        self.shared.borrow_mut().cmd_tx.remove(&node);
        self.shared.borrow_mut().member_tx.remove(&node);
        self.shared.borrow_mut().member_rx.remove(&node);
        self.shared.borrow_mut().subscribed.remove(&node);
        let h = self.host_of(node);
        self.sim.crash(h);
        // in-flight storage calls die with the host; nothing is parked in E2
    }

    pub fn restart(&mut self, node: u8) {
        let h = self.host_of(node);
        self.sim.bounce(h);
    }

    /// The node is stopped and comes back on its other address (same storage, same node id).
    pub fn move_node(&mut self, node: u8) {
        // the host is stopped whether or not the node on it has finished starting (a node still
        // scanning its store is not "up" yet, but it is running)
        self.crash(node);
        let cur = self.host_of(node);
        let next = if cur == host_name(node) { alt_host_name(node) } else { host_name(node) };
        let ip = self.sim.lookup(next.clone());
        {
            let mut sh = self.shared.borrow_mut();
            sh.cur_host.insert(node, next.clone());
            sh.addrs.insert(node, SocketAddr::new(ip, PORT));
        }
        self.sim.bounce(next);
    }

    pub fn all_ids(&self) -> Vec<u8> {
        self.shared.borrow().cfg.nodes.iter().map(|n| n.id).collect()
    }
}

impl<'a> Drop for Cluster<'a> {
    fn drop(&mut self) {
        reset_hooks();
    }
}

async fn node_main(sh: SharedRef, me: NodeCfg, _all: Vec<NodeCfg>, repair_ms: u64, host: String) -> turmoil::Result {
    let id = me.id;
    let me_addr: SocketAddr = (turmoil::lookup(host), PORT).into();
    if sh.borrow().cfg.real_membership {
        return real_node_main(sh, me, me_addr).await;
    }
    let server = datacake_rpc::Server::listen((IpAddr::from(Ipv4Addr::UNSPECIFIED), PORT).into()).await?;
    let clock = Clock::new(id);
    let network = RpcNetwork::default();
    let selector = nv::start_node_selector(me_addr, me.dc.clone().into(), DCAwareSelector::default()).await;
    let member = ClusterMember::new(id, me_addr, me.dc.clone());
    let (mtx, mrx) = watch::channel(nv::NodeMembership::from([(id, member.clone())]));
    let (ctx, crx) = watch::channel(MembershipChange::default());
    let stats = ClusterStatistics::default();
    tokio::spawn(nv::watch_membership_changes(id, network.clone(), selector.clone(), stats.clone(), WatchStream::new(mrx), ctx));
    let handle = nv::new_handle(member, clock.clone(), network.clone(), selector, stats, crx);
    let storage = sh.borrow().stores[&id].clone();
    let store: EventuallyConsistentStore<SimStorage> = ecv::create_store(storage, Duration::from_millis(repair_ms), handle, &server).await.map_err(|e| e.to_string())?;
    let (ctx_tx, cmd_rx) = mpsc::unbounded_channel::<Cmd>();
    {
        let mut s = sh.borrow_mut();
        *s.boots.entry(id).or_insert(0) += 1;
        s.cmd_tx.insert(id, ctx_tx);
        s.member_tx.insert(id, mtx);
        s.up.insert(id);
        // a node that (re)starts learns the view the harness last decided for it
        let view = s.views.get(&id).cloned();
        if let Some(v) = view {
            let mut m = nv::NodeMembership::new();
            let cfgs: Vec<NodeCfg> = s.cfg.nodes.clone();
            for n in &cfgs {
                if v.contains(&n.id) || n.id == id {
                    if let Some(a) = s.addrs.get(&n.id) {
                        m.insert(n.id, ClusterMember::new(n.id, *a, n.dc.clone()));
                    }
                }
            }
            if let Some(tx) = s.member_tx.get(&id) {
                let _ = tx.send(m);
            }
        }
    }
    command_loop(sh, id, store, clock, network, cmd_rx).await
}

/// A node built with the public API alone: `DatacakeNodeBuilder::connect` (RPC server, clock,
/// selector, gossip membership over the RPC transport, membership watcher) and
/// `EventuallyConsistentStoreExtension` (the unmodified `EventuallyConsistentStore::create`).
async fn real_node_main(sh: SharedRef, me: NodeCfg, me_addr: SocketAddr) -> turmoil::Result {
    use datacake_eventual_consistency::EventuallyConsistentStoreExtension;
    use datacake_node::{ConnectionConfig, DatacakeNodeBuilder};
    use tokio_stream::StreamExt;
    let id = me.id;
    let seeds: Vec<String> = sh.borrow().addrs.iter().filter(|(n, _)| **n != id).map(|(_, a)| a.to_string()).collect();
    let listen: SocketAddr = (IpAddr::from(Ipv4Addr::UNSPECIFIED), PORT).into();
    // gossip replies go to the sender's *listen* address, so it has to be the routable one
    let _ = listen;
    let node = DatacakeNodeBuilder::<DCAwareSelector>::new(id, ConnectionConfig::new(me_addr, me_addr, seeds)).with_data_center(me.dc.clone()).connect().await.map_err(|e| format!("connect: {e}"))?;
    let storage = sh.borrow().stores[&id].clone();
    let store: EventuallyConsistentStore<SimStorage> = node.add_extension(EventuallyConsistentStoreExtension::new(storage)).await.map_err(|e| format!("store extension: {e}"))?;
    let handle = node.handle();
    let clock = handle.clock().clone();
    let network = handle.network().clone();
    let (ctx_tx, cmd_rx) = mpsc::unbounded_channel::<Cmd>();
    {
        let mut s = sh.borrow_mut();
        *s.boots.entry(id).or_insert(0) += 1;
        s.cmd_tx.insert(id, ctx_tx);
        s.member_rx.insert(id, nv::members_of(&node));
        s.subscribed.insert(id, BTreeMap::new());
        s.up.insert(id);
    }
    // the membership layer's view over time (what the consistency-level oracle counts against)
    {
        let sh = sh.clone();
        let mut rx = nv::members_of(&node);
        tokio::task::spawn_local(async move {
            loop {
                let ids: BTreeSet<u8> = rx.borrow_and_update().keys().copied().collect();
                {
                    let mut s = sh.borrow_mut();
                    if !s.up.contains(&id) {
                        break;
                    }
                    let now = turmoil::elapsed().as_millis() as u64;
                    s.views_hist.entry(id).or_default().push((now, ids.clone()));
                    s.views.insert(id, ids);
                }
                if rx.changed().await.is_err() {
                    break;
                }
            }
        });
    }
    // a component that subscribes right at start and applies each change it is handed, in order
    {
        let sh = sh.clone();
        let mut changes = handle.membership_changes();
        tokio::task::spawn_local(async move {
            while let Some(ch) = changes.next().await {
                let mut s = sh.borrow_mut();
                s.deltas_seen += 1;
                let Some(set) = s.subscribed.get_mut(&id) else { break };
                for m in &ch.left {
                    if set.get(&m.node_id) == Some(&m.public_addr) {
                        set.remove(&m.node_id);
                    }
                }
                for m in &ch.joined {
                    set.insert(m.node_id, m.public_addr);
                }
            }
        });
    }
    let r = command_loop(sh, id, store, clock, network, cmd_rx).await;
    drop(node);
    r
}

async fn command_loop(sh: SharedRef, id: u8, store: EventuallyConsistentStore<SimStorage>, clock: Clock, network: RpcNetwork, mut cmd_rx: mpsc::UnboundedReceiver<Cmd>) -> turmoil::Result {
    let group = ecv::group_of(&store);
    let store_handle = store.handle();
    let repairer = Rc::new(tokio::sync::Mutex::new(ecv::Repairer::new(group.clone(), network.clone())));
    while let Some(cmd) = cmd_rx.recv().await {
        let (sh, h, clock, network, repairer, group) = (sh.clone(), store_handle.clone(), clock.clone(), network.clone(), repairer.clone(), group.clone());
        tokio::task::spawn_local(async move {
            match cmd {
                Cmd::Snapshot { snap_id } => {
                    let store = sh.borrow().stores[&id].clone();
                    let mut diffs = Vec::new();
                    for ks in store.keyspace_names() {
                        let mb = group.get_or_create_keyspace(&ks).await;
                        match mb.send(ecv::Serialize).await {
                            Ok(bytes) => match crate::e1::decode_set(&bytes) {
                                Ok(set) => {
                                    let (sl, sd) = crate::e1::set_listing(&set);
                                    let (ml, md) = store.metadata(&ks);
                                    if sl != ml {
                                        diffs.push(format!("keyspace {ks}: set live {} vs store live {}", crate::e1::fmt_list(&sl), crate::e1::fmt_list(&ml)));
                                    }
                                    if sd != md {
                                        diffs.push(format!("keyspace {ks}: set tombstones {} vs store tombstones {}", crate::e1::fmt_list(&sd), crate::e1::fmt_list(&md)));
                                    }
                                },
                                Err(e) => diffs.push(format!("keyspace {ks}: {e}")),
                            },
                            Err(e) => diffs.push(format!("keyspace {ks}: serialize failed: {e}")),
                        }
                    }
                    // reads through the public handle: get, get_many, iter_metadata, get_keyspace_list
                    let mut rdiffs = Vec::new();
                    let listed = h.get_keyspace_list().await.unwrap_or_default();
                    for ks in store.keyspace_names() {
                        if !listed.contains(&ks) {
                            rdiffs.push(format!("get_keyspace_list omits {ks}"));
                        }
                        let rows: Vec<(u64, HLCTimestamp, Option<Vec<u8>>)> = store.st.lock().rows.get(&ks).map(|m| m.iter().map(|(k, r)| (*k, r.ts, r.data.clone())).collect()).unwrap_or_default();
                        let mut meta: Vec<(u64, HLCTimestamp, bool)> = match h.iter_metadata(&ks).await {
                            Ok(it) => it.collect(),
                            Err(e) => {
                                rdiffs.push(format!("keyspace {ks}: iter_metadata failed: {e}"));
                                continue;
                            },
                        };
                        meta.sort();
                        let mut want_meta: Vec<(u64, HLCTimestamp, bool)> = rows.iter().map(|(k, t, d)| (*k, *t, d.is_none())).collect();
                        want_meta.sort();
                        if meta != want_meta {
                            rdiffs.push(format!("keyspace {ks}: iter_metadata returns {} entries, the store holds {}", meta.len(), want_meta.len()));
                        }
                        let ids: Vec<u64> = rows.iter().map(|(k, _, _)| *k).collect();
                        let many: BTreeMap<u64, (HLCTimestamp, Vec<u8>)> = match h.get_many(&ks, ids.clone()).await {
                            Ok(it) => it.map(|d| (d.id(), (d.last_updated(), d.data().to_vec()))).collect(),
                            Err(e) => {
                                rdiffs.push(format!("keyspace {ks}: get_many failed: {e}"));
                                BTreeMap::new()
                            },
                        };
                        for (k, t, d) in &rows {
                            let one = match h.get(&ks, *k).await {
                                Ok(o) => o.map(|d| (d.last_updated(), d.data().to_vec())),
                                Err(e) => {
                                    rdiffs.push(format!("keyspace {ks} id {k}: get failed: {e}"));
                                    continue;
                                },
                            };
                            let want = d.as_ref().map(|b| (*t, b.clone()));
                            if one != want {
                                rdiffs.push(format!("keyspace {ks} id {k}: get returns {:?}, the store holds {:?}", one.as_ref().map(|(t, b)| (crate::e1::fmt_ts(*t), b.len())), want.as_ref().map(|(t, b)| (crate::e1::fmt_ts(*t), b.len()))));
                            }
                            if many.get(k).cloned() != want {
                                rdiffs.push(format!("keyspace {ks} id {k}: get_many returns {:?}, the store holds {:?}", many.get(k).map(|(t, b)| (crate::e1::fmt_ts(*t), b.len())), want.as_ref().map(|(t, b)| (crate::e1::fmt_ts(*t), b.len()))));
                            }
                        }
                    }
                    sh.borrow_mut().read_diffs.insert((snap_id, id), rdiffs);
                    sh.borrow_mut().snapshots.insert((snap_id, id), diffs);
                },
                Cmd::Op { op_id, spec } => run_op(&sh, id, &h, op_id, spec).await,
                Cmd::Repair { rep_id, peer } => {
                    let addr = sh.borrow().addrs.get(&peer).copied();
                    let res = match addr {
                        Some(a) => {
                            let mut r = repairer.lock().await;
                            r.repair_from(peer, a).await.map_err(|e| e.to_string())
                        },
                        None => Err("unknown peer".to_string()),
                    };
                    let mut s = sh.borrow_mut();
                    if let Some(r) = s.repairs.iter_mut().find(|r| r.rep_id == rep_id) {
                        r.result = Some(res);
                    }
                },
                Cmd::Replay { ks, id: doc_id, ts, data, origin, fresh } => {
                    // delivered to *this* node's consistency service over the network from itself
                    // is pointless; the harness sends Replay to the node that should re-send it.
                    let targets: Vec<SocketAddr> = {
                        let s = sh.borrow();
                        s.addrs.iter().filter(|(n, _)| **n != id).map(|(_, a)| *a).collect()
                    };
                    let origin_addr = sh.borrow().addrs.get(&origin).copied().unwrap_or(targets.first().copied().unwrap_or(([0, 0, 0, 0], 0).into()));
                    for t in targets {
                        let ch = if fresh { datacake_rpc::Channel::connect(t) } else { network.get_or_connect(t) };
                        let mut c = ecv::ConsistencyClient::<SimStorage>::new(clock.clone(), ch);
                        let r = match &data {
                            Some(d) => c.put(ks.clone(), datacake_eventual_consistency::Document::new(doc_id, ts, d.clone()), origin, origin_addr).await,
                            None => c.del(ks.clone(), doc_id, ts).await,
                        };
                        let mut s = sh.borrow_mut();
                        s.replays_sent += 1;
                        if r.is_err() {
                            s.replay_errors += 1;
                        }
                    }
                },
            }
        });
    }
    std::future::pending::<()>().await;
    drop(store);
    Ok(())
}

async fn run_op(sh: &SharedRef, node: u8, h: &ReplicatedStoreHandle<SimStorage>, op_id: usize, spec: OpSpec) {
    let invoked = turmoil::elapsed().as_millis() as u64;
    {
        let view: Vec<u8> = sh.borrow().views.get(&node).map(|v| v.iter().copied().collect()).unwrap_or_default();
        let mut s = sh.borrow_mut();
        s.ops.push(OpRecord {
            op_id,
            node,
            spec: spec.clone(),
            invoked_ms: invoked,
            returned_ms: None,
            result: None,
            ts: None,
            holders_at_return: None,
            holder_ids_at_return: vec![],
            view_at_return: view,
            superseded_locally: false,
            ambiguous: false,
            lost_on_issuer: vec![],
            calls_at_invoke: 0,
            calls_end: None,
        });
    }
    let calls_at_invoke = sh.borrow().stores[&node].st.lock().calls.len();
    if let Some(r) = sh.borrow_mut().ops.iter_mut().find(|r| r.op_id == op_id) {
        r.calls_at_invoke = calls_at_invoke;
    }
    // the issuer's wall clock (datacake ms) and the number of jumps it has made, at invocation
    let wall_now = move || datacake_crdt::verif::unix_now(node).map(|d| d.saturating_sub(DATACAKE_EPOCH).as_millis() as i64);
    let wall_inv = wall_now();
    let jumps_inv = sh.borrow().clock_jump_count.get(&node).copied().unwrap_or(0);
    let level = level_of(&spec.level);
    let call = async {
        match spec.kind.as_str() {
            "put" => h.put(&spec.ks, spec.ids[0], payload_for(&spec, node, op_id, spec.ids[0]), level).await,
            "put_many" => {
                let mut docs: Vec<(u64, Vec<u8>)> = spec.ids.iter().map(|i| (*i, payload_for(&spec, node, op_id, *i))).collect();
                if spec.dup {
                    let mut second = value_for(node, op_id, spec.ids[0]);
                    second.extend_from_slice(b"#second-copy");
                    docs.push((spec.ids[0], second));
                }
                h.put_many(&spec.ks, docs, level).await
            },
            "del" => h.del(&spec.ks, spec.ids[0], level).await,
            _ => h.del_many(&spec.ks, spec.ids.clone(), level).await,
        }
    };
    let give_up = sh.borrow_mut().cancel_next.remove(&node);
    // the caller gives up after some virtual time, or - to reach await points that are passed
    // without any virtual time going by - when the call has been left pending a number of times
    let outcome = match give_up {
        None => Some(call.await),
        Some((_, Some(polls))) => crate::framework::GiveUpAfterPolls::new(call, polls).await,
        Some((ms, None)) => tokio::time::timeout(Duration::from_millis(ms), call).await.ok(),
    };
    let Some(res) = outcome else {
        // the call never returned anything. Whatever it had handed to the keyspace actor or the
        // distributor by then may still happen (the window of writes that count as this operation
        // stays open, as for a call cut short by a crash)
        let now = turmoil::elapsed().as_millis() as u64;
        let mut s = sh.borrow_mut();
        s.log.u64(op_id as u64).str("cancelled");
        if let Some(r) = s.ops.iter_mut().find(|r| r.op_id == op_id) {
            r.returned_ms = Some(now);
            r.result = Some("cancelled".to_string());
        }
        return;
    };
    // ---- the instant the call returns: no await between here and the end of this function ----
    let returned = turmoil::elapsed().as_millis() as u64;
    let result = match &res {
        Ok(()) => "ok".to_string(),
        Err(datacake_eventual_consistency::StoreError::ConsistencyError(datacake_node::ConsistencyError::ConsistencyFailure { responses, required, .. })) => format!("consistency:{responses}/{required}"),
        Err(datacake_eventual_consistency::StoreError::ConsistencyError(datacake_node::ConsistencyError::NotEnoughNodes { live, required })) => format!("not_enough_nodes:{live}/{required}"),
        Err(datacake_eventual_consistency::StoreError::StorageError(_)) | Err(datacake_eventual_consistency::StoreError::BulkStorageError(_)) => "storage".to_string(),
        Err(e) => format!("other:{e}"),
    };
    let mut s = sh.borrow_mut();
    // the operation's timestamp: the own-store write of this very call (issued after the call was
    // invoked, by this node, same kind, same ids, and - for puts - this call's unique payload)
    let is_del = spec.kind.starts_with("del");
    let own = s.stores[&node].clone();
    let want_kind = match spec.kind.as_str() {
        "put" => "put",
        "put_many" => "multi_put",
        "del" => "mark_as_tombstone",
        _ => "mark_many_as_tombstone",
    };
    let (ts, ambiguous, superseded) = {
        let st = own.st.lock();
        let cands: Vec<HLCTimestamp> = st
            .calls
            .iter()
            .skip(calls_at_invoke)
            .filter(|c| c.keyspace == spec.ks && c.kind == want_kind && c.applied > 0)
            .filter(|c| c.items.iter().all(|(k, t)| spec.ids.contains(k) && t.node() == node))
            .filter(|c| is_del || c.items.iter().zip(c.datas.iter()).all(|((k, _), d)| d.as_deref() == Some(payload_for(&spec, node, op_id, *k).as_slice())))
            .filter_map(|c| c.items.first().map(|x| x.1))
            .collect();
        let sup = spec.ids.iter().all(|id| st.rows.get(&spec.ks).and_then(|m| m.get(id)).is_some());
        match cands.len() {
            0 => (None, false, sup),
            1 => (Some(cands[0]), false, false),
            _ => (None, true, false),
        }
    };
    let mut holders: Vec<u8> = Vec::new();
    if let Some(ts) = ts {
        for (n, st) in s.stores.iter() {
            if *n == node {
                continue;
            }
            let all = spec.ids.iter().all(|id| match row_of(st, &spec.ks, *id) {
                Some(r) => r.ts >= ts && (r.ts > ts || r.data.is_none() == is_del),
                None => false,
            });
            if all {
                holders.push(*n);
            }
        }
    }
    // "superseded" needs rows that are not older than the operation. The operation's timestamp is
    // unknown here, but never below the issuer's wall clock when it was stamped (minus the 4 ms
    // resolution); with at most one clock jump inside the call the lowest reading of the call is
    // the reading at invocation, lowered by the jump if it went backwards.
    let mut lost_on_issuer: Vec<(u64, u64)> = Vec::new();
    if ts.is_none() && !ambiguous && superseded && !spec.dup {
        let jumps_ret = s.clock_jump_count.get(&node).copied().unwrap_or(0);
        if let (Some(wi), Some(wr)) = (wall_inv, wall_now()) {
            if jumps_ret - jumps_inv <= 1 {
                let jump = (wr - wi) - (returned as i64 - invoked as i64);
                let wall_lo = wi + jump.min(0) - 8;
                let st = own.st.lock();
                for id in &spec.ids {
                    if let Some(row) = st.rows.get(&spec.ks).and_then(|m| m.get(id)) {
                        if (row.ts.datacake_timestamp().as_millis() as i64) < wall_lo {
                            lost_on_issuer.push((*id, wall_lo.max(0) as u64));
                        }
                    }
                }
            }
        }
    }
    let view: Vec<u8> = s.views.get(&node).map(|v| v.iter().copied().collect()).unwrap_or_default();
    s.log.u64(op_id as u64).str(&result).u64(holders.len() as u64);
    if let Some(r) = s.ops.iter_mut().find(|r| r.op_id == op_id) {
        r.returned_ms = Some(returned);
        r.result = Some(result);
        r.ts = ts;
        r.holders_at_return = Some(holders.len());
        r.holder_ids_at_return = holders;
        r.view_at_return = view;
        r.superseded_locally = superseded && lost_on_issuer.is_empty();
        r.ambiguous = ambiguous;
        r.lost_on_issuer = lost_on_issuer;
        r.calls_end = Some(own.st.lock().calls.len());
    }
}

/// One issued mutation as captured at the issuer's store (ts.node == issuer).
#[derive(Clone, Debug, PartialEq, Eq, PartialOrd, Ord)]
pub struct Issued {
    pub ks: String,
    pub id: u64,
    pub ts: HLCTimestamp,
    pub data: Option<Vec<u8>>,
}

/// All operations issued in the cluster: for every call made through a store handle, the writes
/// with the issuer's own node id that its store received between the call's invocation and its
/// return (or the stop of its host), for the call's keyspace, ids and kind. Reading the whole log
/// instead would launder a manufactured timestamp: a tombstone a peer invents with the issuer's
/// node id comes back to the issuer through repair and would then look like its own operation.
pub fn issued_ops(sh: &Shared) -> Vec<Issued> {
    let mut out: BTreeSet<Issued> = sh.prefilled.iter().cloned().collect();
    for o in &sh.ops {
        let Some(st) = sh.stores.get(&o.node) else { continue };
        let st = st.st.lock();
        let end = o.calls_end.unwrap_or(st.calls.len()).min(st.calls.len());
        let is_del = o.spec.kind.starts_with("del");
        for c in st.calls.iter().take(end).skip(o.calls_at_invoke.min(end)) {
            if c.applied == 0 || c.kind == "remove_tombstones" || c.keyspace != o.spec.ks {
                continue;
            }
            let call_is_del = c.kind.starts_with("mark");
            if call_is_del != is_del {
                continue;
            }
            for (i, (k, t)) in c.items.iter().take(c.applied).enumerate() {
                if t.node() == o.node && o.spec.ids.contains(k) {
                    out.insert(Issued { ks: c.keyspace.clone(), id: *k, ts: *t, data: c.datas.get(i).cloned().flatten() });
                }
            }
        }
    }
    out.into_iter().collect()
}

pub fn lww(issued: &[Issued]) -> BTreeMap<(String, u64), (HLCTimestamp, bool)> {
    let mut m: BTreeMap<(String, u64), (HLCTimestamp, bool)> = BTreeMap::new();
    for i in issued {
        let e = m.entry((i.ks.clone(), i.id)).or_insert((i.ts, i.data.is_some()));
        if i.ts > e.0 {
            *e = (i.ts, i.data.is_some());
        }
    }
    m
}
