//! C14 — under network faults an RPC answers correctly or fails; never twice or mixed.

use std::cell::RefCell;
use std::collections::BTreeMap;
use std::net::{IpAddr, Ipv4Addr, SocketAddr};
use std::rc::Rc;
use std::time::Duration;

use datacake_rpc::{Channel, ErrorCode, Handler, Request, RpcClient, RpcService, Server, ServiceRegistry, Status};
use rand::Rng;
use rand::SeedableRng;
use rkyv::{Archive, Deserialize, Serialize};
use serde_json::Value;

use crate::framework::*;

#[repr(C)]
#[derive(Serialize, Deserialize, Archive, PartialEq, Debug)]
#[archive(check_bytes)]
pub struct Msg {
    pub id: u64,
    pub delay_ms: u32,
    pub pad: Vec<u8>,
}

#[repr(C)]
#[derive(Serialize, Deserialize, Archive, PartialEq, Debug)]
#[archive(check_bytes)]
pub struct Rep {
    pub id: u64,
    pub v: u64,
}

/// executions per request id, shared by every handler of every server (single-threaded simulation)
#[derive(Clone)]
pub struct Execs(Rc<RefCell<BTreeMap<u64, u32>>>);
unsafe impl Send for Execs {}
unsafe impl Sync for Execs {}

pub struct Svc {
    /// which server this instance runs on (part of every reply value)
    sid: u64,
    execs: Execs,
}
unsafe impl Send for Svc {}
unsafe impl Sync for Svc {}

/// a second service handling the same message type (another reply function)
pub struct Svc2 {
    sid: u64,
    execs: Execs,
}
unsafe impl Send for Svc2 {}
unsafe impl Sync for Svc2 {}

impl RpcService for Svc2 {
    fn service_name() -> &'static str {
        "c14-beta"
    }
    fn register_handlers(r: &mut ServiceRegistry<Self>) {
        r.add_handler::<Msg>();
    }
}

// the two services' (name, message path) pairs are each other's mirror image: anything that
// identifies a handler by a symmetric combination of the two confuses them
impl RpcService for Svc {
    fn service_name() -> &'static str {
        "c14-alpha"
    }
    fn register_handlers(r: &mut ServiceRegistry<Self>) {
        r.add_handler::<Msg>();
    }
}

fn code_num(c: &ErrorCode) -> u8 {
    match c {
        ErrorCode::ServiceUnavailable => 1,
        ErrorCode::InternalError => 2,
        ErrorCode::InvalidPayload => 3,
        ErrorCode::ConnectionError => 4,
        ErrorCode::Timeout => 5,
    }
}

fn f(id: u64, pad: usize) -> u64 {
    id.wrapping_mul(0x9E37_79B9_7F4A_7C15) ^ (pad as u64)
}

/// the reply the handler of service `svc` on server `srv` computes for request `id`
fn expected(id: u64, pad: usize, svc: u8, srv: u8) -> u64 {
    let v = if svc == 0 { f(id, pad) } else { f(id, pad).rotate_left(17) };
    v ^ ((srv as u64) << 56)
}

/// bits 28-30 of the delay field ask the handler to fail with that error code (1-5, as numbered by
/// `code_num`) and a message naming the request
const FAIL_SHIFT: u32 = 28;
const FAIL_MASK: u32 = 7 << FAIL_SHIFT;

fn status_of(code: u8, message: String) -> Status {
    let code = match code {
        1 => ErrorCode::ServiceUnavailable,
        3 => ErrorCode::InvalidPayload,
        4 => ErrorCode::ConnectionError,
        5 => ErrorCode::Timeout,
        _ => ErrorCode::InternalError,
    };
    Status { code, message }
}

fn refusal_text(id: u64, svc: u8, srv: u8) -> String {
    format!("request {id} refused by service {svc} on server {srv}")
}

async fn handle(sid: u64, svc: u8, execs: &Execs, msg: Request<Msg>) -> Result<Rep, Status> {
    let (id, delay, pad) = (msg.id.value(), msg.delay_ms.value(), msg.pad.len());
    *execs.0.borrow_mut().entry(id).or_insert(0) += 1;
    let (fail, delay) = (((delay & FAIL_MASK) >> FAIL_SHIFT) as u8, delay & !FAIL_MASK);
    if delay > 0 {
        tokio::time::sleep(Duration::from_millis(delay as u64)).await;
    }
    if fail != 0 {
        return Err(status_of(fail, refusal_text(id, svc, sid as u8)));
    }
    Ok(Rep { id, v: expected(id, pad, svc, sid as u8) })
}

#[datacake_rpc::async_trait]
impl Handler<Msg> for Svc2 {
    type Reply = Rep;
    fn path() -> &'static str {
        "c14-alpha"
    }
    async fn on_message(&self, msg: Request<Msg>) -> Result<Rep, Status> {
        handle(self.sid, 1, &self.execs, msg).await
    }
}

#[datacake_rpc::async_trait]
impl Handler<Msg> for Svc {
    type Reply = Rep;
    fn path() -> &'static str {
        "c14-beta"
    }
    async fn on_message(&self, msg: Request<Msg>) -> Result<Rep, Status> {
        handle(self.sid, 0, &self.execs, msg).await
    }
}

#[derive(serde::Serialize, serde::Deserialize, Clone, Debug)]
pub struct Req {
    pub pad: usize,
    pub delay_ms: u32,
    pub timeout_ms: Option<u64>,
    /// send through a clone of the configured client (clients are cloned to be shared)
    #[serde(default)]
    pub via_clone: bool,
    /// which server, which client host, which of the two services; whether the handler fails
    #[serde(default)]
    pub srv: u8,
    #[serde(default)]
    pub cli: u8,
    #[serde(default)]
    pub svc: u8,
    /// 0: the handler answers; 1-5: it refuses with that error code (numbered as in `code_num`)
    #[serde(default)]
    pub fail: u8,
}

#[derive(serde::Serialize, serde::Deserialize, Clone, Debug)]
#[serde(tag = "ev")]
pub enum Ev {
    /// the client issues these requests concurrently (ids are assigned in order of appearance)
    #[serde(rename = "wave")]
    Wave { t: u64, new_channel: bool, reqs: Vec<Req> },
    #[serde(rename = "hold")]
    Hold {
        t: u64,
        #[serde(default)]
        cli: u8,
        #[serde(default)]
        srv: u8,
    },
    #[serde(rename = "release")]
    Release {
        t: u64,
        #[serde(default)]
        cli: u8,
        #[serde(default)]
        srv: u8,
    },
    #[serde(rename = "partition")]
    Partition {
        t: u64,
        #[serde(default)]
        cli: u8,
        #[serde(default)]
        srv: u8,
    },
    #[serde(rename = "repair")]
    Repair {
        t: u64,
        #[serde(default)]
        cli: u8,
        #[serde(default)]
        srv: u8,
    },
    /// a server process is killed and restarted
    #[serde(rename = "bounce")]
    Bounce {
        t: u64,
        #[serde(default)]
        srv: u8,
    },
}

impl Ev {
    fn t(&self) -> u64 {
        match self {
            Ev::Wave { t, .. } | Ev::Hold { t, .. } | Ev::Release { t, .. } | Ev::Partition { t, .. } | Ev::Repair { t, .. } | Ev::Bounce { t, .. } => *t,
        }
    }
}

#[derive(serde::Serialize, serde::Deserialize, Clone, Debug)]
pub struct Scenario {
    pub net_seed: u64,
    pub latency_ms: (u64, u64),
    pub events: Vec<Ev>,
    /// number of server hosts / client hosts (0 or 1: one)
    #[serde(default)]
    pub servers: u8,
    #[serde(default)]
    pub clients: u8,
}

pub struct C14;

const PORT: u16 = 9300;
/// requests without their own timeout are abandoned by the harness after this long (not a violation)
const OUTER_MS: u64 = 30_000;

#[derive(Clone, Debug)]
struct Done {
    id: u64,
    pad: usize,
    timeout_ms: Option<u64>,
    svc: u8,
    srv: u8,
    fail: u8,
    took_ms: u64,
    res: Result<(u64, u64), (u8, String)>,
    abandoned: bool,
}

impl Check for C14 {
    fn id(&self) -> &'static str {
        "C14"
    }
    fn title(&self) -> &'static str {
        "Under network faults an RPC answers correctly or fails; never twice or mixed"
    }
    fn engine(&self) -> &'static str {
        "E2: one or two server hosts (real datacake-rpc Server, two services sharing a message type, handlers log executions per request id, optional handler delay or refusal) and one or two client hosts (real RpcClient/Channel, one Channel per server) over simulated TCP with timed hold/release, partition/repair (also mid-stream) and server kill+restart"
    }
    fn rule(&self) -> &'static str {
        "Cases: one or (half the cases) two server hosts and one or two client hosts; every server offers two services that share one message type and answer differently (service \"c14-alpha\" with message path \"c14-beta\" and service \"c14-beta\" with message path \"c14-alpha\"), and 15 % of the requests of those cases are refused by their handler with one of the five error codes and a message naming the request; 2-14 waves of 1-12 concurrent requests with unique ids, payloads 0-20 KiB (one case in seven: also 64-900 KiB, several HTTP/2 flow-control windows), handler delays 0-600 ms, per-request client timeouts 30-2500 ms or none (the configured client used directly or through a clone), several clients sharing one Channel (first use raced) or a fresh Channel per wave; 0-8 fault events at seeded times: link hold/release, partition/repair (segments of established streams are dropped), server kill+restart. Oracle over the recorded results: each is Ok(f(id, payload size, service, server)) carrying its own id, or its own handler's refusal verbatim, or ConnectionError/Timeout; the handler ran at most once per id and at least once for every Ok; a request with client timeout T returned within T + 2 ms; nothing panics. Requests without a timeout that are black-holed are abandoned by the harness after 30 simulated s (allowed). Non-trivial = a fault event lies between the first and last wave and >= 2 requests overlapped. Distinct = hash of the result-kind sequence."
    }
    fn assumptions(&self) -> Vec<String> {
        vec![
            "turmoil drops segments of a partitioned established stream without ever timing the connection out; a request without a client timeout may then never return, which the statement allows (no bound promised)".into(),
            "the simulation transport (LazyClient) never re-dials; after a server restart a fresh Channel is needed, as after RpcNetwork::disconnect in the real system".into(),
        ]
    }
    fn components(&self) -> Vec<(&'static str, &'static str)> {
        vec![("datacake-rpc RpcClient / Channel / LazyClient / Server / framing, hyper HTTP/2 client+server", "real"), ("TCP", "simulated (turmoil): latency, hold/release, partition/repair, host crash")]
    }
    fn budget(&self, tier: Tier) -> Budget {
        match tier {
            Tier::Quick => Budget { wall_secs: 60, max_cases: 12_000, checkpoint_every: 1, workers: 16 },
            Tier::Thorough => Budget { wall_secs: 900, max_cases: 1_000_000, checkpoint_every: 1, workers: 16 },
        }
    }
    fn generate(&self, seed: u64, idx: u64, _tier: Tier) -> Value {
        let mut rng = rng_from(case_seed(seed, idx));
        let waves = rng.gen_range(2..=14);
        // one case in seven also sends large messages (several HTTP/2 flow-control windows)
        let large = rng.gen_bool(1.0 / 7.0);
        // half the cases: two servers and/or two client hosts, two services sharing the message
        // type on every server, handlers that fail for some requests
        let wide = rng.gen_bool(0.5);
        let servers: u8 = if wide && rng.gen_bool(0.7) { 2 } else { 1 };
        let clients: u8 = if wide && rng.gen_bool(0.5) { 2 } else { 1 };
        let mut events = Vec::new();
        let mut t = rng.gen_range(0..50);
        for w in 0..waves {
            let k = rng.gen_range(1..=12);
            let reqs = (0..k)
                .map(|_| Req {
                    pad: match rng.gen_range(0..5) {
                        0 => 0,
                        1 => rng.gen_range(0..20_000),
                        2 if large => rng.gen_range(66_000..900_000),
                        _ => rng.gen_range(0..400),
                    },
                    delay_ms: if rng.gen_bool(0.3) { rng.gen_range(1..600) } else { 0 },
                    timeout_ms: if rng.gen_bool(0.6) { Some(rng.gen_range(30..2_500)) } else { None },
                    via_clone: rng.gen_bool(0.4),
                    srv: rng.gen_range(0..servers),
                    cli: rng.gen_range(0..clients),
                    svc: if wide { rng.gen_range(0..2) } else { 0 },
                    fail: if wide && rng.gen_bool(0.15) { rng.gen_range(1..=5) } else { 0 },
                })
                .collect();
            events.push(Ev::Wave { t, new_channel: w > 0 && rng.gen_bool(0.25), reqs });
            t += rng.gen_range(5..900);
        }
        let span = t + 500;
        let kinds = rng.gen_range(0..8u32); // bitmask-ish variety
        for _ in 0..rng.gen_range(0..=8) {
            let ft = rng.gen_range(0..span);
            let (cli, srv) = (rng.gen_range(0..clients), rng.gen_range(0..servers));
            match (rng.gen_range(0..10), kinds) {
                (0..=3, _) => {
                    events.push(Ev::Hold { t: ft, cli, srv });
                    events.push(Ev::Release { t: ft + rng.gen_range(5..1_500), cli, srv });
                },
                (4..=5, k) if k % 2 == 0 => {
                    events.push(Ev::Partition { t: ft, cli, srv });
                    events.push(Ev::Repair { t: ft + rng.gen_range(5..1_500), cli, srv });
                },
                (6, k) if k % 3 != 0 => events.push(Ev::Bounce { t: ft, srv }),
                _ => {},
            }
        }
        events.sort_by_key(|e| e.t());
        serde_json::to_value(Scenario {
            net_seed: rng.gen(),
            latency_ms: (1, *[2u64, 20, 80].get(rng.gen_range(0..3)).unwrap()),
            events,
            servers,
            clients,
        })
        .unwrap()
    }
    fn isolate(&self, _scenario: &Value) -> bool {
        true
    }
    fn execute(&self, scenario: &Value) -> Outcome {
        let sc: Scenario = match serde_json::from_value(scenario.clone()) {
            Ok(s) => s,
            Err(e) => return Outcome::invalid(format!("bad scenario: {e}")),
        };
        let mut out = Outcome::default();
        let execs: Rc<RefCell<BTreeMap<u64, u32>>> = Rc::new(RefCell::new(BTreeMap::new()));
        let done: Rc<RefCell<Vec<Done>>> = Rc::new(RefCell::new(Vec::new()));
        let issued = Rc::new(std::cell::Cell::new(0u64));
        let mut sim = turmoil::Builder::new()
            .simulation_duration(Duration::from_secs(100_000))
            .tick_duration(Duration::from_millis(1))
            .min_message_latency(Duration::from_millis(sc.latency_ms.0))
            .max_message_latency(Duration::from_millis(sc.latency_ms.1.max(sc.latency_ms.0)))
            .build_with_rng(Box::new(rand::rngs::SmallRng::seed_from_u64(sc.net_seed)));
        let (n_srv, n_cli) = (sc.servers.max(1) as usize, sc.clients.max(1) as usize);
        const SRV: [&str; 2] = ["server", "server1"];
        const CLI: [&str; 2] = ["client", "client1"];
        if n_srv > 2 || n_cli > 2 {
            return Outcome::invalid("at most two servers and two clients".to_string());
        }
        for (sid, name) in SRV.iter().enumerate().take(n_srv) {
            let execs = Execs(execs.clone());
            sim.host(*name, move || {
                let execs = execs.clone();
                async move {
                    let s = Server::listen((IpAddr::from(Ipv4Addr::UNSPECIFIED), PORT).into()).await?;
                    s.add_service(Svc { sid: sid as u64, execs: execs.clone() });
                    s.add_service(Svc2 { sid: sid as u64, execs });
                    std::future::pending::<()>().await;
                    Ok(())
                }
            });
        }
        type WaveCmd = (bool, Vec<(u64, Req)>);
        let mut wtxs = Vec::new();
        for name in CLI.iter().take(n_cli) {
            let (wtx, wrx) = tokio::sync::mpsc::unbounded_channel::<WaveCmd>();
            wtxs.push(wtx);
            let wrx = Rc::new(RefCell::new(Some(wrx)));
            let done = done.clone();
            sim.host(*name, move || {
                let (done, wrx) = (done.clone(), wrx.clone());
                async move {
                    let addrs: Vec<SocketAddr> = SRV.iter().take(n_srv).map(|s| (turmoil::lookup(*s), PORT).into()).collect();
                    let mut chans: Vec<Channel> = addrs.iter().map(|a| Channel::connect(*a)).collect();
                    let mut rx = wrx.borrow_mut().take().expect("client started twice");
                    while let Some((new_channel, reqs)) = rx.recv().await {
                        if new_channel {
                            chans = addrs.iter().map(|a| Channel::connect(*a)).collect();
                        }
                        for (id, r) in reqs {
                            let chan = chans[(r.srv as usize).min(n_srv - 1)].clone();
                            let done = done.clone();
                            let msg = Msg { id, delay_ms: r.delay_ms | ((r.fail.min(5) as u32) << FAIL_SHIFT), pad: vec![7u8; r.pad] };
                            macro_rules! go {
                                ($svc:ty) => {{
                                    let mut c = RpcClient::<$svc>::new(chan);
                                    if let Some(t) = r.timeout_ms {
                                        c.set_timeout(Duration::from_millis(t));
                                    }
                                    let c = if r.via_clone { c.clone() } else { c };
                                    tokio::task::spawn_local(async move {
                                        let start = turmoil::elapsed();
                                        let fut = c.send(&msg);
                                        let (res, abandoned) = match tokio::time::timeout(Duration::from_millis(OUTER_MS), fut).await {
                                            Ok(r) => (
                                                r.map(|v| (v.id.value(), v.v.value())).map_err(|s| (code_num(&s.code), s.message)),
                                                false,
                                            ),
                                            Err(_) => (Err((5, "abandoned by the harness".to_string())), true),
                                        };
                                        let took = (turmoil::elapsed() - start).as_millis() as u64;
                                        done.borrow_mut().push(Done {
                                            id,
                                            pad: r.pad,
                                            timeout_ms: r.timeout_ms,
                                            svc: r.svc,
                                            srv: r.srv,
                                            fail: r.fail,
                                            took_ms: took,
                                            res,
                                            abandoned,
                                        });
                                    });
                                }};
                            }
                            if r.svc == 0 {
                                go!(Svc)
                            } else {
                                go!(Svc2)
                            }
                        }
                    }
                    std::future::pending::<()>().await;
                    Ok(())
                }
            });
        }
        let mut evs: Vec<(usize, &Ev)> = sc.events.iter().enumerate().collect();
        evs.sort_by_key(|(i, e)| (e.t(), *i));
        let mut next_id = 1u64;
        let mut first_wave = None;
        let mut last_wave = 0;
        let mut fault_between = false;
        let run = std::panic::catch_unwind(std::panic::AssertUnwindSafe(|| -> Result<(), String> {
            let mut step_to = |sim: &mut turmoil::Sim, t: u64| -> Result<(), String> {
                while (sim.elapsed().as_millis() as u64) < t {
                    sim.step().map_err(|e| e.to_string())?;
                }
                Ok(())
            };
            step_to(&mut sim, 20)?;
            for (_, ev) in &evs {
                step_to(&mut sim, 20 + ev.t())?;
                match ev {
                    Ev::Wave { new_channel, reqs, .. } => {
                        let v: Vec<(u64, Req)> = reqs
                            .iter()
                            .map(|r| {
                                let id = next_id;
                                next_id += 1;
                                (id, r.clone())
                            })
                            .collect();
                        issued.set(issued.get() + v.len() as u64);
                        for (ci, wtx) in wtxs.iter().enumerate() {
                            let mine: Vec<(u64, Req)> = v.iter().filter(|(_, r)| (r.cli as usize).min(n_cli - 1) == ci).cloned().collect();
                            if !mine.is_empty() || *new_channel {
                                let _ = wtx.send((*new_channel, mine));
                            }
                        }
                        if first_wave.is_none() {
                            first_wave = Some(ev.t());
                        }
                        last_wave = ev.t();
                    },
                    Ev::Hold { cli, srv, .. } => {
                        sim.hold(CLI[(*cli as usize).min(n_cli - 1)], SRV[(*srv as usize).min(n_srv - 1)]);
                        out.fault("link_hold");
                        fault_between |= first_wave.is_some();
                    },
                    Ev::Release { cli, srv, .. } => sim.release(CLI[(*cli as usize).min(n_cli - 1)], SRV[(*srv as usize).min(n_srv - 1)]),
                    Ev::Partition { cli, srv, .. } => {
                        sim.partition(CLI[(*cli as usize).min(n_cli - 1)], SRV[(*srv as usize).min(n_srv - 1)]);
                        out.fault("partition");
                        fault_between |= first_wave.is_some();
                    },
                    Ev::Repair { cli, srv, .. } => sim.repair(CLI[(*cli as usize).min(n_cli - 1)], SRV[(*srv as usize).min(n_srv - 1)]),
                    Ev::Bounce { srv, .. } => {
                        sim.bounce(SRV[(*srv as usize).min(n_srv - 1)]);
                        out.fault("server_kill_restart");
                        fault_between |= first_wave.is_some();
                    },
                }
            }
            // all faults stop; give every request the chance to finish or be abandoned
            for c in CLI.iter().take(n_cli) {
                for sv in SRV.iter().take(n_srv) {
                    sim.release(*c, *sv);
                    sim.repair(*c, *sv);
                }
            }
            let end = sim.elapsed().as_millis() as u64 + OUTER_MS + 2_000;
            while (sim.elapsed().as_millis() as u64) < end && (done.borrow().len() as u64) < issued.get() {
                sim.step().map_err(|e| e.to_string())?;
            }
            Ok(())
        }));
        let sim_ms = sim.elapsed().as_millis() as u64;
        drop(sim);
        match run {
            Ok(Ok(())) => {},
            Ok(Err(e)) => out.anomalies.push(format!("simulation ended with: {e}")),
            Err(_) => {},
        }
        let done = done.borrow().clone();
        let execs = execs.borrow().clone();
        let mut tr = Fnv::new();
        let mut sorted = done.clone();
        sorted.sort_by_key(|d| d.id);
        if (sorted.len() as u64) < issued.get() {
            out.violate("C14/request-never-returned", format!("{} of {} requests neither returned nor were abandoned", issued.get() - sorted.len() as u64, issued.get()));
        }
        let mut overlap = 0;
        for d in &sorted {
            let ex = execs.get(&d.id).copied().unwrap_or(0);
            if ex > 1 {
                out.violate("C14/request-executed-more-than-once", format!("request {} ran {ex} times in the handler", d.id));
            }
            match &d.res {
                Ok((rid, v)) => {
                    tr.u64(1);
                    if *rid != d.id {
                        out.violate("C14/reply-of-another-request", format!("request {} received the reply of request {rid}", d.id));
                    } else if *v != expected(d.id, d.pad, d.svc, d.srv) {
                        let whose = if *v == expected(d.id, d.pad, 1 - d.svc.min(1), d.srv) {
                            " (the other service's reply)"
                        } else if *v == expected(d.id, d.pad, d.svc, 1 - d.srv.min(1)) {
                            " (the other server's reply)"
                        } else {
                            ""
                        };
                        out.violate("C14/wrong-reply-value", format!("request {}: reply value {v} != {}{whose}", d.id, expected(d.id, d.pad, d.svc, d.srv)));
                    }
                    if d.fail != 0 {
                        out.violate("C14/handler-error-turned-into-ok", format!("request {} was refused by its handler but the client got Ok", d.id));
                    }
                    if ex == 0 {
                        out.violate("C14/ok-without-execution", format!("request {} returned Ok but the handler never ran for it", d.id));
                    }
                },
                Err((code, msg)) => {
                    tr.u64(if d.abandoned { 4 } else if *code == 5 { 2 } else { 3 });
                    if d.abandoned {
                        out.probe("request_abandoned_after_30s");
                        if d.timeout_ms.is_some() {
                            out.violate("C14/timeout-not-honoured", format!("request {} had a {} ms client timeout but was still pending after {OUTER_MS} ms", d.id, d.timeout_ms.unwrap()));
                        }
                    } else if d.fail != 0 && *code == d.fail && *msg == refusal_text(d.id, d.svc, d.srv) {
                        // the handler's own refusal, as computed for this very request
                        out.probe("handler_refusals_delivered");
                        if ex == 0 {
                            out.violate("C14/ok-without-execution", format!("request {} got a handler refusal but the handler never ran for it", d.id));
                        }
                    } else if msg.starts_with("request ") && msg.contains(" refused by service ") {
                        // a handler's refusal, but not the one computed for this request
                        out.violate(
                            "C14/reply-of-another-request",
                            format!("request {} received the refusal (#{code}, {msg:?}); its handler said (#{}, {:?})", d.id, d.fail, refusal_text(d.id, d.svc, d.srv)),
                        );
                    } else if !matches!(*code, 4 | 5) {
                        out.violate("C14/unexpected-error-kind", format!("request {} failed with error code #{}: {msg}", d.id, code));
                    }
                },
            }
            if let Some(t) = d.timeout_ms {
                if d.took_ms > t + 2 {
                    out.violate("C14/timeout-not-honoured", format!("request {} with a {t} ms client timeout returned after {} ms", d.id, d.took_ms));
                }
            }
            if d.took_ms > 0 {
                overlap += 1;
            }
        }
        out.probe_n("requests_ok", sorted.iter().filter(|d| d.res.is_ok()).count() as u64);
        out.probe_n("requests_failed", sorted.iter().filter(|d| d.res.is_err()).count() as u64);
        out.nontrivial = fault_between && overlap >= 2 && first_wave.map(|f| f < last_wave).unwrap_or(false);
        out.signature = tr.finish();
        tr.u64(sorted.len() as u64);
        out.trace_hash = tr.finish();
        out.state_fp = out.signature;
        out.sim_ms = sim_ms;
        out
    }
}
