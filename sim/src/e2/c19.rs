//! C19 — a peer receives the sender's keyspace state unchanged.

use std::cell::RefCell;
use std::marker::PhantomData;
use std::net::{IpAddr, Ipv4Addr, SocketAddr};
use std::rc::Rc;
use std::sync::Arc;
use std::time::Duration;

use datacake_crdt::{HLCTimestamp, OrSWotSet};
use datacake_eventual_consistency::verif as ecv;
use datacake_eventual_consistency::{Document, DocumentMetadata};
use datacake_node::Clock;
use datacake_rpc::{Channel, Handler, Request, RpcService, Server, ServiceRegistry, Status};
use rand::Rng;
use rand::SeedableRng;
use serde::{Deserialize, Serialize};
use serde_json::Value;

use crate::e1::{decode_set, set_listing, SimStorage};
use crate::framework::*;

#[derive(Serialize, Deserialize, Clone, Debug)]
pub struct Scenario {
    /// seed of the sender's history
    pub history_seed: u64,
    pub entries: usize,
    pub origins: u8,
    /// spread of the timestamps in ms (hours-long spreads move the purge cut-offs)
    pub span_ms: u64,
    pub purge: bool,
    pub net_seed: u64,
    pub latency_ms: (u64, u64),
    /// None = fidelity case; Some(kind) = the peer answers with an undecodable nested state:
    /// "empty" | "random" | "truncated" | "flipped"
    pub garbage: Option<String>,
    pub garbage_seed: u64,
    /// set by the check itself: this garbage case is already running in its own process
    #[serde(default)]
    pub in_child: bool,
    /// fidelity arm: the history is applied in this many slices; after each slice (and an optional
    /// purge, bit i of `purge_mask`) the receiver fetches the state again. A slice may be empty
    /// (then only the purge separates two fetches).
    #[serde(default)]
    pub phases: usize,
    #[serde(default)]
    pub purge_mask: u32,
}

pub struct C19;

const PORT: u16 = 9400;
const BASE_MS: u64 = 30_000_000_000;

/// Same URI as the real ReplicationService / GetState, answers with a hand-made nested state.
struct FakeRepl {
    set_bytes: Vec<u8>,
}
impl RpcService for FakeRepl {
    fn service_name() -> &'static str {
        <ecv::ReplicationService<SimStorage> as RpcService>::service_name()
    }
    fn register_handlers(r: &mut ServiceRegistry<Self>) {
        r.add_handler::<ecv::GetState>();
    }
}
#[datacake_rpc::async_trait]
impl Handler<ecv::GetState> for FakeRepl {
    type Reply = ecv::KeyspaceOrSwotSet;
    async fn on_message(&self, _msg: Request<ecv::GetState>) -> Result<ecv::KeyspaceOrSwotSet, Status> {
        let ts = HLCTimestamp::new(Duration::from_millis(BASE_MS), 0, 1);
        Ok(ecv::KeyspaceOrSwotSet { timestamp: ts, last_updated: ts, set: self.set_bytes.clone() })
    }
}

fn build_history(sc: &Scenario) -> Vec<(bool, usize, u64, HLCTimestamp)> {
    // (is_delete, source, id, ts)
    let mut rng = rng_from(sc.history_seed);
    let mut v = Vec::new();
    let ids = (sc.entries as u64).max(1);
    for i in 0..sc.entries {
        let t = BASE_MS + rng.gen_range(0..sc.span_ms.max(4)) / 4 * 4;
        let ts = HLCTimestamp::new(Duration::from_millis(t), if rng.gen_bool(0.9) { 0 } else { rng.gen_range(0..50) }, 1 + rng.gen_range(0..sc.origins.max(1)));
        let id = if rng.gen_bool(0.8) { i as u64 } else { rng.gen_range(0..ids) };
        v.push((rng.gen_bool(0.3), rng.gen_range(0..2usize), id, ts));
    }
    v
}

fn probe_grid(truth: &OrSWotSet<2>, sc: &Scenario) -> Vec<(u64, HLCTimestamp)> {
    let (live, dead) = set_listing(truth);
    let mut rng = rng_from(sc.history_seed ^ 0x9e);
    let mut grid = Vec::new();
    let mut stamps: Vec<(u64, HLCTimestamp)> = live.iter().chain(dead.iter()).copied().collect();
    if stamps.len() > 400 {
        let step = stamps.len() / 400;
        stamps = stamps.into_iter().step_by(step.max(1)).collect();
    }
    for (k, t) in stamps {
        let ms = t.datacake_timestamp().as_millis() as u64;
        for d in [-3_600_004i64, -4, 0, 4, 3_600_004] {
            let m = (ms as i64 + d).max(0) as u64;
            for key in [k, 9_000_000_000u64 + k] {
                grid.push((key, HLCTimestamp::new(Duration::from_millis(m), t.counter(), t.node())));
                grid.push((key, HLCTimestamp::new(Duration::from_millis(m), t.counter().saturating_add(1), t.node())));
            }
        }
    }
    // around every origin's possible cut-off: sweep the whole span coarsely
    for o in 1..=sc.origins.max(1) {
        for j in 0..40u64 {
            let m = BASE_MS.saturating_sub(3_700_000) + j * (sc.span_ms + 7_400_000) / 40;
            grid.push((8_000_000_000 + rng.gen_range(0..10), HLCTimestamp::new(Duration::from_millis(m / 4 * 4), 0, o)));
        }
    }
    grid
}

impl Check for C19 {
    fn id(&self) -> &'static str {
        "C19"
    }
    fn title(&self) -> &'static str {
        "A peer receives the sender's keyspace state unchanged"
    }
    fn engine(&self) -> &'static str {
        "E2: sender host (real KeyspaceGroup + actors + ReplicationService on the real Server) and receiver host (real ReplicationClient::get_state, including its unchecked nested decode) over simulated TCP/HTTP2; garbage arm: a same-URI impostor service answers with an undecodable nested state inside a valid outer frame"
    }
    fn rule(&self) -> &'static str {
        "Cases: sender states built through the real actor from seeded histories: 0 / tombstone-only / 1..5000 operations (one case early in every run and one in 150 after that: 60 000-260 000 operations, a state of several hundred KiB), 1-255 origins, both sources, timestamps spread over 4 ms .. 12 h (so per-origin purge cut-offs differ), optionally purged; the history is applied in 1-4 slices (one may be empty) with an optional purge after each, and the receiver fetches after every slice, so consecutive fetches are separated by writes, by a purge only, or by nothing; sizes sweep the nested payload's length and alignment classes. Oracle: the set the receiver obtains lists the same live ids, tombstones and timestamps as (a) the sender's own Serialize output (validated decode) and (b) a set of the harness's own to which the same history and purges were applied, answers will_apply identically on a probe grid around every stored stamp (-1 h, -4 ms, 0, +4 ms, +1 h; held and fresh keys) and around every origin's cut-off, and yields the same diff for seeded third-party sets. Garbage arm (each in its own worker process): nested state empty / random bytes / truncated / one byte flipped -> get_state must return Err, not a set (a returned set, a panic or a crash is the violation). Non-trivial = >= 2 entries or a garbage case. Distinct = hash of (history seed, size, origins, garbage kind)."
    }
    fn assumptions(&self) -> Vec<String> {
        vec![
            "the sender's own state is read through the actor's Serialize message and decoded with rkyv validation".into(),
            "'cannot be decoded' is exercised with nested bytes that rkyv's validator rejects; the outer frame stays valid (checksum and layout)".into(),
        ]
    }
    fn components(&self) -> Vec<(&'static str, &'static str)> {
        vec![
            ("KeyspaceGroup/actor Serialize, ReplicationService GetState handler, ReplicationClient::get_state (from_bytes_unchecked), datacake-rpc framing, hyper HTTP/2", "real"),
            ("TCP", "simulated (turmoil)"),
            ("peer answering garbage", "harness impostor service (same service_name/path)"),
        ]
    }
    fn budget(&self, tier: Tier) -> Budget {
        match tier {
            Tier::Quick => Budget { wall_secs: 60, max_cases: 12_000, checkpoint_every: 1, workers: 16 },
            Tier::Thorough => Budget { wall_secs: 900, max_cases: 1_000_000, checkpoint_every: 1, workers: 16 },
        }
    }
    fn generate(&self, seed: u64, idx: u64, _tier: Tier) -> Value {
        let mut rng = rng_from(case_seed(seed, idx));
        // "states of any size": one very large state early in every run and one case in 150 after that
        let huge = idx == 11 || mix(0xB19, idx) % 150 == 0;
        let entries = match rng.gen_range(0..10) {
            _ if huge => rng.gen_range(60_000..260_000),
            0 => 0,
            1 => 1,
            2 => rng.gen_range(1_000..5_000),
            3 => rng.gen_range(100..1_000),
            _ => rng.gen_range(1..64),
        };
        let garbage = if !huge && rng.gen_bool(0.12) { Some(["empty", "random", "truncated", "flipped"][rng.gen_range(0..4)].to_string()) } else { None };
        serde_json::to_value(Scenario {
            history_seed: rng.gen(),
            entries,
            origins: match rng.gen_range(0..4) {
                0 => 1,
                1 => 254,
                _ => rng.gen_range(1..8),
            },
            span_ms: *[4u64, 60_000, 3_000_000, 14_400_000, 43_200_000].get(rng.gen_range(0..5)).unwrap(),
            purge: rng.gen_bool(0.4),
            net_seed: rng.gen(),
            latency_ms: (1, *[2u64, 30].get(rng.gen_range(0..2)).unwrap()),
            garbage,
            garbage_seed: rng.gen(),
            in_child: false,
            phases: rng.gen_range(1..=4),
            purge_mask: rng.gen_range(0..16),
        })
        .unwrap()
    }
    fn execute(&self, scenario: &Value) -> Outcome {
        let sc: Scenario = match serde_json::from_value(scenario.clone()) {
            Ok(s) => s,
            Err(e) => return Outcome::invalid(format!("bad scenario: {e}")),
        };
        if sc.garbage.is_some() && !sc.in_child {
            // an undecodable state may take the whole process down: run it in a process of its own
            let mut child = sc.clone();
            child.in_child = true;
            return match exec_isolated("C19", &serde_json::to_value(&child).unwrap()) {
                Ok(mut o) => {
                    for v in o.violations.iter_mut() {
                        if v.class.ends_with("/process-died") {
                            v.class = "C19/undecodable-state-crashes-receiver".into();
                            v.detail = format!("nested state '{}': get_state did not return an error, {}", sc.garbage.as_deref().unwrap_or(""), v.detail);
                        }
                    }
                    o
                },
                Err(e) => Outcome::invalid(format!("harness: child process: {e}")),
            };
        }
        let mut out = Outcome::default();
        let hist = build_history(&sc);
        let truth: Rc<RefCell<Option<OrSWotSet<2>>>> = Rc::new(RefCell::new(None));
        let truth_bytes: Rc<RefCell<Vec<u8>>> = Rc::new(RefCell::new(Vec::new()));
        let got: Rc<RefCell<Option<Result<OrSWotSet<2>, String>>>> = Rc::new(RefCell::new(None));
        let truths: Rc<RefCell<Vec<OrSWotSet<2>>>> = Rc::new(RefCell::new(Vec::new()));
        let gots: Rc<RefCell<Vec<Result<OrSWotSet<2>, String>>>> = Rc::new(RefCell::new(Vec::new()));
        // an independent account of the sender's state: the same history applied to a set of the
        // harness's own, the way the actor applies it (will_apply, then insert/delete; purge = purge)
        let models: Rc<RefCell<Vec<OrSWotSet<2>>>> = Rc::new(RefCell::new(Vec::new()));
        let (ctl_tx, ctl_rx0) = tokio::sync::mpsc::unbounded_channel::<()>();
        let ctl_rx = Rc::new(RefCell::new(Some(ctl_rx0)));
        datacake_crdt::verif::set_wall_clock(Some(Box::new(|_n| datacake_crdt::DATACAKE_EPOCH + Duration::from_millis(BASE_MS + 50_000_000) + turmoil::elapsed())));
        let mut sim = turmoil::Builder::new()
            .simulation_duration(Duration::from_secs(3_600))
            .tick_duration(Duration::from_millis(1))
            .min_message_latency(Duration::from_millis(sc.latency_ms.0))
            .max_message_latency(Duration::from_millis(sc.latency_ms.1.max(sc.latency_ms.0)))
            .build_with_rng(Box::new(rand::rngs::SmallRng::seed_from_u64(sc.net_seed)));
        let ready = Rc::new(tokio::sync::Notify::new());
        {
            let (hist, truth, truth_bytes, ready, sc2, truths, ctl_rx, models) = (hist.clone(), truth.clone(), truth_bytes.clone(), ready.clone(), sc.clone(), truths.clone(), ctl_rx.clone(), models.clone());
            sim.host("sender", move || {
                let (hist, truth, truth_bytes, ready, sc, truths, ctl_rx, models) = (hist.clone(), truth.clone(), truth_bytes.clone(), ready.clone(), sc2.clone(), truths.clone(), ctl_rx.clone(), models.clone());
                async move {
                    let mut model = OrSWotSet::<2>::default();
                    let server = Server::listen((IpAddr::from(Ipv4Addr::UNSPECIFIED), PORT).into()).await?;
                    let clock = Clock::new(200);
                    let storage = SimStorage::default();
                    let group = ecv::KeyspaceGroup::new(Arc::new(storage), clock).await;
                    let mb = group.get_or_create_keyspace("ks").await;
                    let phases = if sc.garbage.is_some() { 1 } else { sc.phases.max(1) };
                    // slice boundaries; with >= 3 phases the second slice is empty on purpose
                    let n = hist.len();
                    let bounds: Vec<usize> = (0..=phases).map(|i| if phases >= 3 && i == 2 { n * 1 / phases } else { n * i / phases }).collect();
                    let mut phase = 0usize;
                    let mut bytes = Vec::new();
                    let mut ctl = ctl_rx.borrow_mut().take().expect("sender started twice");
                    if sc.garbage.is_none() {
                        server.add_service(ecv::ReplicationService::new(group.clone()));
                    }
                    loop {
                        let (lo, hi) = (bounds[phase].min(n), bounds[phase + 1].max(bounds[phase]).min(n));
                        for (del, source, id, ts) in &hist[lo..hi] {
                            if *del {
                                let _ = mb.send(ecv::Del { source: *source, doc: DocumentMetadata::new(*id, *ts), _marker: PhantomData }).await;
                            } else {
                                let _ = mb.send(ecv::Set { source: *source, doc: Document::new(*id, *ts, vec![1u8]), ctx: None, _marker: PhantomData }).await;
                            }
                            if model.will_apply(*id, *ts) {
                                if *del {
                                    model.delete_with_source(*source, *id, *ts);
                                } else {
                                    model.insert_with_source(*source, *id, *ts);
                                }
                            }
                        }
                        let purge_now = if sc.garbage.is_some() { sc.purge } else { sc.purge_mask & (1 << phase) != 0 || (sc.purge && phase + 1 == phases) };
                        if purge_now {
                            let _ = mb.send(ecv::PurgeDeletes(PhantomData::<SimStorage>)).await;
                            let _ = model.purge_old_deletes();
                        }
                        models.borrow_mut().push(model.clone());
                        bytes = mb.send(ecv::Serialize).await.map_err(|e| e.to_string())?;
                        truths.borrow_mut().push(decode_set(&bytes)?);
                        *truth.borrow_mut() = Some(decode_set(&bytes)?);
                        *truth_bytes.borrow_mut() = bytes.clone();
                        phase += 1;
                        if sc.garbage.is_some() || phase >= phases {
                            break;
                        }
                        ready.notify_one();
                        // wait until the receiver has fetched this phase's state
                        if ctl.recv().await.is_none() {
                            break;
                        }
                    }
                    match &sc.garbage {
                        None => {},
                        Some(kind) => {
                            let mut rng = rng_from(sc.garbage_seed);
                            let g: Vec<u8> = match kind.as_str() {
                                "empty" => vec![],
                                "random" => (0..rng.gen_range(1..600)).map(|_| rng.gen()).collect(),
                                "truncated" => {
                                    let l = if bytes.len() > 1 { rng.gen_range(0..bytes.len() - 1) } else { 0 };
                                    bytes[..l].to_vec()
                                },
                                _ => {
                                    let mut b = bytes.clone();
                                    // damage the tail, where rkyv keeps the root object (lengths / offsets)
                                    let n = b.len();
                                    let lo = n.saturating_sub(64);
                                    for _ in 0..4 {
                                        let i = rng.gen_range(lo..n.max(lo + 1)).min(n - 1);
                                        b[i] ^= 0xff;
                                    }
                                    b
                                },
                            };
                            // a mutation can happen to leave a well-formed state: then this is
                            // not an "undecodable" case and nothing is judged
                            *truth.borrow_mut() = if decode_set(&g).is_ok() { None } else { truth.borrow().clone() };
                            server.add_service(FakeRepl { set_bytes: g });
                        },
                    }
                    ready.notify_one();
                    std::future::pending::<()>().await;
                    Ok(())
                }
            });
        }
        {
            let (got, ready, gots) = (got.clone(), ready.clone(), gots.clone());
            let phases = if sc.garbage.is_some() { 1 } else { sc.phases.max(1) };
            sim.client("receiver", async move {
                let addr: SocketAddr = (turmoil::lookup("sender"), PORT).into();
                let clock = Clock::new(100);
                let mut client = ecv::ReplicationClient::<SimStorage>::new(clock, Channel::connect(addr));
                for p in 0..phases {
                    ready.notified().await;
                    let r = client.get_state("ks").await.map(|(_, s)| s).map_err(|e| format!("{:?}: {}", e.code, e.message));
                    gots.borrow_mut().push(r.clone());
                    *got.borrow_mut() = Some(r);
                    if p + 1 < phases {
                        let _ = ctl_tx.send(());
                    }
                }
                Ok(())
            });
        }
        let run = std::panic::catch_unwind(std::panic::AssertUnwindSafe(|| sim.run()));
        drop(sim);
        datacake_crdt::verif::set_wall_clock(None);
        let panics = take_panics();
        match run {
            Ok(Ok(())) => {},
            Ok(Err(e)) => out.anomalies.push(format!("simulation ended with: {e}")),
            Err(_) => {},
        }
        let truth = truth.borrow().clone();
        let got = got.borrow().clone();
        match &sc.garbage {
            Some(kind) => {
                if truth.is_none() {
                    out.probe("mutated_state_still_well_formed_not_judged");
                    out.nontrivial = false;
                    out.signature = sc.history_seed;
                    out.trace_hash = sc.history_seed;
                    return out;
                }
                out.fault(&format!("undecodable_nested_state_{kind}"));
                // is it really undecodable? (a truncation can happen to cut nothing that matters)
                let g_ok = false;
                let _ = g_ok;
                if !panics.is_empty() {
                    out.violate(
                        "C19/undecodable-state-makes-receiver-panic",
                        format!("nested state '{kind}': {}", panics.iter().map(|(l, m)| format!("{l}: {m}")).collect::<Vec<_>>().join("; ")),
                    );
                }
                match got {
                    Some(Err(_)) => {},
                    Some(Ok(s)) => {
                        // only a violation if the validator would have refused those bytes
                        let listing = std::panic::catch_unwind(std::panic::AssertUnwindSafe(|| set_listing(&s)));
                        let _ = take_panics();
                        out.violate(
                            "C19/undecodable-state-used-instead-of-error",
                            format!("nested state '{kind}' was returned as a set ({}) instead of an error", match listing { Ok((l, d)) => format!("{} live, {} tombstones", l.len(), d.len()), Err(_) => "unreadable".into() }),
                        );
                    },
                    None => {
                        if panics.is_empty() {
                            out.violate("C19/get-state-never-returned", format!("nested state '{kind}'"));
                        }
                    },
                }
            },
            None => {
                for (l, m) in &panics {
                    if l.starts_with("/repo/") {
                        out.violate(format!("C19/panic@{}", l.trim_start_matches("/repo/")), format!("{l}: {m}"));
                    } else {
                        out.anomalies.push(format!("{l}: {m}"));
                    }
                }
                let Some(_last) = truth else {
                    return Outcome::invalid("sender did not finish building its state");
                };
                let truths = truths.borrow().clone();
                let gots = gots.borrow().clone();
                let phases = sc.phases.max(1);
                if gots.len() < phases {
                    out.violate("C19/get-state-never-returned", format!("{} entries: only {} of {} fetches returned", sc.entries, gots.len(), phases));
                }
                out.probe_n("fetches", gots.len() as u64);
                let models = models.borrow().clone();
                for (pi, (truth, got)) in truths.iter().zip(gots.iter()).enumerate() {
                    let when = format!("fetch #{} of {}", pi + 1, phases);
                    match got {
                        Ok(recv) => {
                            if let Some(model) = models.get(pi) {
                                let (ml, md) = set_listing(model);
                                let (rl, rd) = set_listing(recv);
                                if ml != rl {
                                    let miss: Vec<_> = ml.iter().filter(|x| !rl.contains(x)).take(3).collect();
                                    let extra: Vec<_> = rl.iter().filter(|x| !ml.contains(x)).take(3).collect();
                                    out.violate("C19/received-live-entries-differ-from-applied-history", format!("{when}: the history applied so far leaves {} live entries, the receiver decoded {} (missing e.g. {:?}, extra e.g. {:?})", ml.len(), rl.len(), miss, extra));
                                }
                                if md != rd {
                                    let miss: Vec<_> = md.iter().filter(|x| !rd.contains(x)).take(3).collect();
                                    let extra: Vec<_> = rd.iter().filter(|x| !md.contains(x)).take(3).collect();
                                    out.violate("C19/received-tombstones-differ-from-applied-history", format!("{when}: the history applied so far leaves {} tombstones, the receiver decoded {} (missing e.g. {:?}, extra e.g. {:?})", md.len(), rd.len(), miss, extra));
                                }
                                let grid = probe_grid(model, &sc);
                                if let Some((k, t)) = grid.iter().find(|(k, t)| model.will_apply(*k, *t) != recv.will_apply(*k, *t)) {
                                    out.violate("C19/received-state-decides-differently-from-applied-history", format!("{when}: will_apply(key {k}, {t}) is {} after the applied history and {} on the received state", model.will_apply(*k, *t), recv.will_apply(*k, *t)));
                                }
                            }
                            let (tl, td) = set_listing(truth);
                            let (rl, rd) = set_listing(recv);
                            if tl != rl {
                                out.violate("C19/received-live-entries-differ", format!("{when}: sender has {} live entries, receiver decoded {}", tl.len(), rl.len()));
                            }
                            if td != rd {
                                let extra: Vec<_> = rd.iter().filter(|x| !td.contains(x)).take(3).collect();
                                out.violate("C19/received-tombstones-differ", format!("{when}: sender has {} tombstones, receiver decoded {} (e.g. only in the received state: {:?})", td.len(), rd.len(), extra));
                            }
                            let mut mism = 0;
                            let grid = probe_grid(truth, &sc);
                            for (k, t) in &grid {
                                if truth.will_apply(*k, *t) != recv.will_apply(*k, *t) {
                                    mism += 1;
                                    if mism == 1 {
                                        out.violate("C19/received-state-decides-differently", format!("{when}: will_apply(key {k}, {}) is {} on the sender's state and {} on the received one", t, truth.will_apply(*k, *t), recv.will_apply(*k, *t)));
                                    }
                                }
                            }
                            out.probe_n("will_apply_probes", grid.len() as u64);
                            // third-party diff equality
                            let mut rng = rng_from(sc.history_seed ^ 0xd1ff);
                            for _ in 0..3 {
                                let mut a = OrSWotSet::<2>::default();
                                for (del, source, id, ts) in hist.iter().filter(|_| rng.gen_bool(0.5)) {
                                    if *del {
                                        a.delete_with_source(*source, *id, *ts);
                                    } else {
                                        a.insert_with_source(*source, *id, *ts);
                                    }
                                }
                                if a.diff(truth) != a.diff(recv) {
                                    out.violate("C19/diff-against-received-state-differs", format!("{when}: a third replica computes a different difference against the received state than against the sender's"));
                                }
                            }
                            let mut fp = Fnv::new();
                            for (k, t) in rl.iter().chain(rd.iter()) {
                                fp.u64(*k).u64(t.as_u64());
                            }
                            out.state_fp = fp.finish();
                        },
                        Err(e) => out.violate("C19/get-state-failed-on-a-valid-state", format!("{when}, {} entries: {e}", sc.entries)),
                    }
                }
                let _ = got;
            },
        }
        out.nontrivial = sc.entries >= 2 || sc.garbage.is_some();
        out.probe_n("nested_state_bytes", truth_bytes.borrow().len() as u64);
        let mut f = Fnv::new();
        f.u64(sc.history_seed).u64(sc.entries as u64).u64(sc.origins as u64).str(sc.garbage.as_deref().unwrap_or("-"));
        out.signature = f.finish();
        f.u64(out.state_fp).u64(out.violations.len() as u64);
        out.trace_hash = f.finish();
        out.sim_ms = 1_000;
        out
    }
}
